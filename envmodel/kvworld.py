"""Helpers to run the real LMDB writer / query code of nostr_relay.storage.kv on the lmdb contract
model (stubs/lmdb) with symbolic events.  Nothing here re-implements repo logic: the writer loop is
the real WriterThread.run, executed synchronously on a queue that holds the tasks followed by the
stop sentinel."""
import contextlib
import logging
import queue

import lmdb  # stubs/lmdb
from aionostr.event import Event
from nostr_relay.storage import kv

from refs import kvlayout as L

IDS = tuple("%02x" % b + "00" * 30 + "%02x" % c for (b, c) in ((0, 1), (0, 2), (0, 3), (255, 255), (0, 4)))
PKS = ("aa" * 32, "bb" * 32)
SIG = "cc" * 64


class _Stats:
    @contextlib.contextmanager
    def timeit(self, name):
        yield {"count": 0}


def new_env():
    env = lmdb.open()
    with env.begin(write=True) as txn:
        txn.put(L.TOMBSTONE, b"")
    env.mutations = 0
    return env


def make_event(idx, pk, kind, ts, tags, content="c"):
    """a real aionostr Event; id/pubkey concrete hex from the pools, kind/created_at may be symbolic"""
    return Event(id=IDS[idx], pubkey=PKS[pk], kind=kind, created_at=ts, tags=tags, content=content, sig=SIG)


def run_writer(env, tasks, pending=None):
    """execute the real writer loop over `tasks` (then the stop sentinel); returns the thread object"""
    wt = kv.WriterThread(env, _Stats())
    if pending is not None and hasattr(wt, "pending"):
        wt.pending = pending
    for t in tasks:
        wt.queue.put(t)
    wt.queue.put(None)
    wt.run()
    return wt


def stored_rows(env):
    """decoded primary records: list of dict(id, pubkey, kind, created_at, tags)"""
    out = []
    for i in range(len(env.keys)):
        k = env.keys[i]
        if len(k) == 33 and k[0:1] == b"\x00":
            row = kv.unpackb(env.vals[i], use_list=False)
            out.append(dict(id=row[1].hex(), pubkey=row[4].hex(), kind=row[3], created_at=row[2],
                            tags=[list(t) for t in row[6]], idb=row[1], pkb=row[4]))
    return out


def expected_keys(rows):
    keys = [L.TOMBSTONE]
    for r in rows:
        keys.append(L.k_id(r["idb"]))
        for k in L.index_keys(r["idb"], r["pkb"], r["kind"], r["created_at"], r["tags"]):
            if k not in keys:
                keys.append(k)
    return keys


def coherence_error(env):
    """None when the key set is exactly tombstone + primary + index keys of the stored events"""
    rows = stored_rows(env)
    want = expected_keys(rows)
    have = list(env.keys)
    for k in want:
        if k not in have:
            return "missing index entry %s for a stored event" % k.hex()
    for k in have:
        if k not in want:
            return "dangling entry %s (no stored event has it)" % k.hex()
    if len(have) != len(want):
        return "duplicate keys in the store"
    return None


def ids_of(env):
    return sorted(r["id"] for r in stored_rows(env))
