"""A small deterministic model of the asyncio event loop (DESIGN §2.3), used in place of the name
`asyncio` inside the repo modules while an obligation runs.

Tasks are coroutines stepped by `Loop.run(main)`.  Real suspension points are modelled by awaitables
that yield a wait descriptor to the scheduler:
  Queue.get on an empty queue, sleep (one pass through the ready queue), awaiting an unfinished task,
  wait([...]) on unfinished tasks, and `idle()` – used by the harness' ws_recv: the next inbound message
  is delivered only when every other task is blocked ("the client speaks after the relay went idle").
Ready tasks run in FIFO order (creation order, then wake-up order) as on a real loop.  Queue.put on
an unbounded queue, ws_send and awaiting a finished task do not suspend.

`schedule` (optional): a list of ints consumed one per scheduling decision; it rotates the ready
list, which lets an obligation make the interleaving a symbolic variable (FIFO when exhausted).
"""
import types

CancelledError = __import__("asyncio").CancelledError
TimeoutError = __import__("asyncio").TimeoutError


class Deadlock(Exception):
    pass


@types.coroutine
def _wait(desc):
    yield desc


class Task:
    def __init__(self, loop, coro, name=""):
        self.loop = loop
        self.coro = coro
        self.name = name
        self.finished = False
        self.value = None
        self.exc = None
        self.waiting = None       # wait descriptor while suspended
        self.cancel_requested = False
        self.was_cancelled = False

    def cancel(self, msg=None):
        if self.finished:
            return False
        self.cancel_requested = True
        return True

    def done(self):
        return self.finished

    def cancelled(self):
        return self.was_cancelled

    def result(self):
        if self.exc is not None:
            raise self.exc
        return self.value

    def exception(self):
        return self.exc

    def add_done_callback(self, cb):
        pass

    def __await__(self):
        if not self.finished:
            yield ("join", self)
        if self.exc is not None:
            raise self.exc
        return self.value


class Queue:
    def __init__(self, maxsize=0):
        self.items = []

    async def put(self, x):
        self.items.append(x)

    def put_nowait(self, x):
        self.items.append(x)

    async def get(self):
        if not self.items:
            await _wait(("get", self))
        return self.items.pop(0)

    def qsize(self):
        return len(self.items)

    def empty(self):
        return not self.items


class _Timeout:
    def __init__(self, t=None):
        pass

    async def __aenter__(self):
        return self

    async def __aexit__(self, *a):
        return False


class Semaphore:
    def __init__(self, n=1):
        self.n = n
        self.acquired = 0

    async def __aenter__(self):
        await self.acquire()
        return self

    async def __aexit__(self, *a):
        self.release()
        return False

    async def acquire(self):
        while self.acquired >= self.n:
            await _wait(("sem", self))
        self.acquired += 1
        return True

    def release(self):
        self.acquired -= 1

    def locked(self):
        return self.acquired >= self.n


class _RunningLoop:
    def __init__(self, loop):
        self.loop = loop

    def run_in_executor(self, pool, fn, *args):
        async def call():
            return fn(*args)
        return call()

    def create_task(self, coro):
        return self.loop.create_task(coro)

    def set_debug(self, flag):
        pass


class Loop:
    def __init__(self, schedule=None):
        self.tasks = []
        self.schedule = list(schedule or [])
        self.steps = 0
        self.max_steps = 400

    # ---- the names the repo code uses through `asyncio.` -------------------------------------
    def namespace(self):
        ns = types.SimpleNamespace()
        ns.Queue = Queue
        ns.Semaphore = Semaphore
        ns.CancelledError = CancelledError
        ns.TimeoutError = TimeoutError
        ns.exceptions = types.SimpleNamespace(CancelledError=CancelledError, TimeoutError=TimeoutError)
        ns.create_task = self.create_task
        ns.ensure_future = self.create_task
        ns.sleep = self.sleep
        ns.wait = self.wait
        ns.timeout = _Timeout
        ns.get_running_loop = lambda: _RunningLoop(self)
        ns.get_event_loop = lambda: _RunningLoop(self)
        ns.Task = Task
        return ns

    def create_task(self, coro, name=""):
        t = Task(self, coro, name)
        self.tasks.append(t)
        return t

    async def sleep(self, delay=0, result=None):
        await _wait(("sleep",))
        return result

    async def wait(self, tasks, **kw):
        tasks = list(tasks)
        if any(not t.finished for t in tasks):
            await _wait(("joinall", tasks))
        return set(tasks), set()

    async def idle(self):
        await _wait(("idle",))

    # ---- scheduler -------------------------------------------------------------------------------
    def _ready(self, t):
        w = t.waiting
        if t.finished:
            return False
        if t.cancel_requested:
            return True
        if w is None or w[0] == "sleep":
            return True
        if w[0] == "get":
            return bool(w[1].items)
        if w[0] == "join":
            return w[1].finished
        if w[0] == "joinall":
            return all(x.finished for x in w[1])
        if w[0] == "sem":
            return w[1].acquired < w[1].n
        return False  # idle: handled by the scheduler

    def _step(self, t):
        try:
            if t.cancel_requested and not t.finished:
                t.cancel_requested = False
                if t.waiting is None:
                    # cancelled before it ever ran: asyncio never starts the coroutine body
                    t.coro.close()
                    t.finished = True
                    t.was_cancelled = True
                    t.exc = CancelledError()
                    return
                desc = t.coro.throw(CancelledError())
            else:
                desc = t.coro.send(None)
            t.waiting = desc
        except StopIteration as e:
            t.finished = True
            t.value = e.value
        except CancelledError as e:
            t.finished = True
            t.was_cancelled = True
            t.exc = e
        except Exception as e:  # noqa: the task's own exception is stored like asyncio does
            t.finished = True
            t.exc = e

    def run(self, main_coro):
        main = self.create_task(main_coro, "main")
        while not main.finished:
            self.steps += 1
            if self.steps > self.max_steps:
                raise Deadlock("scheduler step budget exceeded")
            ready = [t for t in self.tasks if self._ready(t)]
            if not ready:
                idle = [t for t in self.tasks if not t.finished and t.waiting is not None and t.waiting[0] == "idle"]
                if not idle:
                    raise Deadlock("all tasks blocked: %r" % [(t.name, t.waiting and t.waiting[0]) for t in self.tasks if not t.finished])
                # several connections wait for input: which client speaks next is the environment's choice
                ready = idle
            k = 0
            if self.schedule and len(ready) > 1:
                k = self.schedule.pop(0) % len(ready)
            t = ready[k]
            # FIFO: a task that ran goes to the back of the queue
            self.tasks.remove(t)
            self.tasks.append(t)
            self._step(t)
        if main.exc is not None:
            raise main.exc
        return main.value

    def settle(self):
        """run every task that can still run (used after the main coroutine returned)"""
        for _ in range(self.max_steps):
            ready = [t for t in self.tasks if self._ready(t)]
            if not ready:
                return
            self._step(ready[0])
