"""Tokenizer, parser and evaluator for the SQL subset that db.Subscription.build_query can emit
(DESIGN §3.4).  Text outside the grammar raises Unsupported (reported as a harness error, never as a
violation).  Semantics are SQLite's for exactly these constructs:

  SELECT <cols> FROM events WHERE ( <conj> ) OR ( <conj> ) ... ORDER BY created_at DESC LIMIT n
  conj      := pred AND pred ...
  pred      := id IN (SELECT id FROM tags WHERE tagcond OR tagcond ... [GROUP BY id HAVING COUNT(*) = n]) |
               events.id IN (blob, ...) | lower(hex(id)) LIKE 'p%' | kind IN (n, ...) | created_at >= n |
               created_at < n | false | id IN (SELECT id FROM tags WHERE name = 's' AND value IN ('s', ...)) |
               (pubkey IN (blob, ...) OR id IN (SELECT id FROM tags WHERE name = 's' AND value IN ('s', ...)))
  literals  := 'text' with '' for a quote, x'hex' blobs, decimal integers

A literal may be a *hole* (an identifier such as __h3 inside the quotes, or a sentinel integer): `env`
maps holes to the actual – possibly symbolic – values at evaluation time.
"""


class Unsupported(Exception):
    pass


def tokenize(text):
    """-> list of (kind, value): kind in {'str','blob','num','id','op'}"""
    toks = []
    i, n = 0, len(text)
    while i < n:
        c = text[i]
        if c in " \t\r\n":
            i += 1
        elif c == "'" or (c in "xX" and i + 1 < n and text[i + 1] == "'"):
            blob = c != "'"
            i += 2 if blob else 1
            buf = ""
            while True:
                if i >= n:
                    raise Unsupported("unterminated string literal")
                if text[i] == "'":
                    if i + 1 < n and text[i + 1] == "'":
                        buf += "'"
                        i += 2
                        continue
                    i += 1
                    break
                buf += text[i]
                i += 1
            toks.append(("blob" if blob else "str", buf))
        elif c.isdigit():
            j = i
            while j < n and text[j].isdigit():
                j += 1
            toks.append(("num", int(text[i:j])))
            i = j
        elif c.isalpha() or c == "_":
            j = i
            while j < n and (text[j].isalnum() or text[j] in "_."):
                j += 1
            toks.append(("id", text[i:j]))
            i = j
        elif c in "(),=<>%*":
            if text[i:i + 2] in (">=", "<="):
                toks.append(("op", text[i:i + 2]))
                i += 2
            else:
                toks.append(("op", c))
                i += 1
        elif c == "-" and text[i:i + 2] == "--":
            raise Unsupported("SQL comment in generated text")
        else:
            raise Unsupported("unexpected character %r" % c)
    return toks


class Parser:
    def __init__(self, toks):
        self.t = toks
        self.i = 0

    def peek(self, k=0):
        return self.t[self.i + k] if self.i + k < len(self.t) else ("eof", None)

    def take(self, kind=None, value=None):
        tok = self.peek()
        if (kind is not None and tok[0] != kind) or (value is not None and (tok[1] if tok[0] != "id" else tok[1].lower()) != value):
            raise Unsupported("expected %s %r, got %r" % (kind, value, tok))
        self.i += 1
        return tok

    def is_id(self, word, k=0):
        tok = self.peek(k)
        return tok[0] == "id" and tok[1].lower() == word

    def parse_select(self):
        self.take("id", "select")
        cols = []
        while not self.is_id("from"):
            tok = self.take()
            if tok[0] == "id":
                cols.append(tok[1])
        self.take("id", "from")
        self.take("id", "events")
        where = None
        if self.is_id("where"):
            self.take()
            where = self.expr()
        order = None
        if self.is_id("order"):
            self.take()
            self.take("id", "by")
            self.take("id", "created_at")
            self.take("id", "desc")
            order = "created_at DESC"
        limit = None
        if self.is_id("limit"):
            self.take()
            limit = self.take("num")[1]
        if self.peek()[0] != "eof":
            raise Unsupported("trailing tokens %r" % (self.t[self.i:],))
        return dict(columns=cols, where=where, limit=limit, order=order)

    def expr(self):
        node = self.term()
        while self.is_id("or"):
            self.take()
            node = ("or", node, self.term())
        return node

    def term(self):
        node = self.factor()
        while self.is_id("and"):
            self.take()
            node = ("and", node, self.factor())
        return node

    def literal_list(self, kind):
        self.take("op", "(")
        vals = []
        while True:
            tok = self.take()
            if tok[0] != kind:
                raise Unsupported("expected %s literal, got %r" % (kind, tok))
            vals.append(tok[1])
            if self.peek() == ("op", ","):
                self.take()
                continue
            break
        self.take("op", ")")
        return vals

    def tagcond(self):
        """name = 's' AND value IN ('s', ...), optionally parenthesised"""
        paren = self.peek() == ("op", "(")
        if paren:
            self.take()
        self.take("id", "name")
        self.take("op", "=")
        name = self.take("str")[1]
        self.take("id", "and")
        self.take("id", "value")
        self.take("id", "in")
        values = self.literal_list("str")
        if paren:
            self.take("op", ")")
        return (name, values)

    def factor(self):
        tok = self.peek()
        if tok == ("op", "("):
            self.take()
            node = self.expr()
            self.take("op", ")")
            return node
        if tok[0] != "id":
            raise Unsupported("unexpected token %r" % (tok,))
        word = tok[1].lower()
        if word == "false":
            self.take()
            return ("false",)
        if word in ("events.id", "id", "pubkey"):
            self.take()
            self.take("id", "in")
            if self.peek(1)[0] == "id" and self.peek(1)[1].lower() == "select":
                if word == "pubkey":
                    raise Unsupported("sub-select on pubkey")
                self.take("op", "(")
                self.take("id", "select")
                self.take("id", "id")
                self.take("id", "from")
                self.take("id", "tags")
                self.take("id", "where")
                conds = [self.tagcond()]
                while self.is_id("or"):
                    self.take()
                    conds.append(self.tagcond())
                count = None
                if self.is_id("group"):
                    self.take()
                    self.take("id", "by")
                    self.take("id", "id")
                    self.take("id", "having")
                    self.take("id", "count")
                    self.take("op", "(")
                    self.take("op", "*")
                    self.take("op", ")")
                    self.take("op", "=")
                    count = self.take("num")[1]
                self.take("op", ")")
                if len(conds) == 1 and count is None:
                    return ("tag", conds[0][0], conds[0][1])
                return ("tagrows", conds, count)
            return ("blob_in", "pubkey" if word == "pubkey" else "id", self.literal_list("blob"))
        if word == "lower":
            self.take()
            self.take("op", "(")
            self.take("id", "hex")
            self.take("op", "(")
            self.take("id", "id")
            self.take("op", ")")
            self.take("op", ")")
            self.take("id", "like")
            pat = self.take("str")[1]
            if not pat.endswith("%") or "%" in pat[:-1] or "_" in pat:
                raise Unsupported("LIKE pattern %r" % pat)
            return ("id_prefix", pat[:-1])
        if word == "kind":
            self.take()
            self.take("id", "in")
            return ("kind_in", self.literal_list("num"))
        if word == "created_at":
            self.take()
            op = self.take("op")[1]
            if op not in (">=", "<", "=", "<=", ">"):
                raise Unsupported("created_at %s" % op)
            return ("ts", op, self.take("num")[1])
        raise Unsupported("unexpected identifier %r" % tok[1])


def parse(text):
    return Parser(tokenize(text)).parse_select()


def _val(x, env):
    """resolve a hole: string literals that are hole names, sentinel integers"""
    if isinstance(x, str) and x in env:
        return env[x]
    if isinstance(x, int) and ("#%d" % x) in env:
        return env["#%d" % x]
    return x


def evaluate(node, row, env):
    """row: dict(id=bytes, pubkey=bytes, kind=int, created_at=int, tags=[(name, value), ...])"""
    k = node[0]
    if k == "or":
        return evaluate(node[1], row, env) or evaluate(node[2], row, env)
    if k == "and":
        return evaluate(node[1], row, env) and evaluate(node[2], row, env)
    if k == "false":
        return False
    if k == "blob_in":
        col = row[node[1]]
        for v in node[2]:
            hx = _val(v, env)
            if col.hex() == hx.lower():
                return True
        return False
    if k == "id_prefix":
        return row["id"].hex().startswith(_val(node[1], env))
    if k == "kind_in":
        for v in node[1]:
            if row["kind"] == _val(v, env):
                return True
        return False
    if k == "ts":
        bound = _val(node[2], env)
        ts, op = row["created_at"], node[1]
        return (ts >= bound if op == ">=" else ts < bound if op == "<" else ts == bound if op == "=" else
                ts <= bound if op == "<=" else ts > bound)
    if k == "tag":
        name = _val(node[1], env)
        values = [_val(v, env) for v in node[2]]
        for (n, v) in row["tags"]:
            if n == name and v in values:
                return True
        return False
    if k == "tagrows":
        # rows of this event in `tags` matching any of the (name, values) conditions; (id, name, value) is unique
        n = 0
        for (tn, tv) in row["tags"]:
            hit = False
            for (name, values) in node[1]:
                if tn == _val(name, env) and tv in [_val(v, env) for v in values]:
                    hit = True
            if hit:
                n += 1
        if node[2] is None:
            return n > 0
        return n == node[2]
    raise Unsupported("node %r" % (node,))
