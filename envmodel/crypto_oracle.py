"""Oracle for the FFI crypto (DESIGN §3.5), installed at CLASS level so that every import path
(aionostr.event.PublicKey, coincurve.PublicKeyXOnly, a name imported into a repo module) reaches it.

  PublicKeyXOnly(raw)            -> raises ValueError when the oracle says the key is invalid
  PublicKeyXOnly.verify(sig,msg) -> oracle.verify(raw, sig, msg)  (recorded)
  aionostr.event.sha256 / dumps  -> oracle.sha256 / oracle.dumps  (serialization is an opaque Blob: rendering
                                    symbolic ints as text would fork per digit; equal iff the data are equal)
"""
import aionostr.event as AE
import coincurve.keys as CK


class Blob:
    def __init__(self, data):
        self.data = data

    def encode(self, *a):
        return self

    def __eq__(self, other):
        return isinstance(other, Blob) and self.data == other.data

    def __hash__(self):
        return 0


class Digest:
    def __init__(self, hx):
        self.hx = hx

    def hexdigest(self):
        return self.hx

    def digest(self):
        return bytes.fromhex(self.hx)


_RAW = {}


class CryptoOracle:
    def __init__(self):
        self.verify_calls = []   # (raw_pubkey, sig, msg, answer)
        self.hashed = []
        self.dumped = []

    # --- to be overridden / configured by the harness ---------------------------------------------
    def key_valid(self, raw):
        return True

    def answer(self, raw, sig, msg):
        return False

    def digest_of(self, blob):
        return "00" * 32

    # --- plumbing -----------------------------------------------------------------------------------
    def dumps(self, data):
        self.dumped.append(data)
        return Blob(data)

    def sha256(self, blob=b""):
        self.hashed.append(blob)
        return Digest(self.digest_of(blob))

    def install(self):
        oracle = self

        def __init__(self_, data, *a, **k):
            if not oracle.key_valid(data):
                raise ValueError("The public key could not be parsed or is invalid.")
            _RAW[id(self_)] = data

        def verify(self_, signature, message):
            raw = _RAW.get(id(self_))
            ans = oracle.answer(raw, signature, message)
            oracle.verify_calls.append((raw, signature, message, ans))
            return ans

        CK.PublicKeyXOnly.__init__ = __init__
        CK.PublicKeyXOnly.verify = verify
        AE.sha256 = self.sha256
        AE.dumps = self.dumps
