"""CrossHair plugin: keep `bytes % (bytes, ...)` symbolic for pure %s formats."""
import dis, re
from crosshair.tracers import TracingModule, frame_stack_read, frame_stack_write
from crosshair.core import register_opcode_patch
from crosshair.opcode_intercept import frame_op_arg

BINARY_OP = dis.opmap.get("BINARY_OP", 256)

class SymPercentBytes:
    def __init__(self, value: bytes):
        self.value = value
    def __mod__(self, other):
        fmt = self.value
        parts = fmt.split(b"%s")
        if b"%" in b"".join(parts):
            return fmt.__mod__(other)   # anything else: native behaviour (realises)
        if not isinstance(other, tuple):
            other = (other,)
        if len(other) != len(parts) - 1:
            return fmt.__mod__(other)   # native error behaviour
        out = parts[0]
        for arg, lit in zip(other, parts[1:]):
            out = out + arg + lit
        return out

class BytesModuloInterceptor(TracingModule):
    opcodes_wanted = frozenset([BINARY_OP])
    def trace_op(self, frame, codeobj, codenum):
        left = frame_stack_read(frame, -2)
        if type(left) is bytes:
            if frame_op_arg(frame) != 6:
                return
            frame_stack_write(frame, -2, SymPercentBytes(left))

def make_registrations():
    register_opcode_patch(BytesModuloInterceptor())

make_registrations()


# --- work-around: CrossHair looks up contracts of every callee through inspect.getclosurevars(),
# which raises "ValueError: Cell is empty" for a nested function that closes over a name bound
# only on another branch (Index.scanner's `iterator` closes over `next_match`, unbound on the
# no-match branch).  CPython itself never reads that cell on this branch; fall back to the
# function's globals so that the callee is simply executed.
import crosshair.fnutil as _fu

_orig_fn_globals = _fu.fn_globals


def _fn_globals(fn):
    try:
        return _orig_fn_globals(fn)
    except ValueError:
        return getattr(fn, "__globals__", {})


_fu.fn_globals = _fn_globals


# --- opt-in: opaque rendering of symbolic ints by format()/f-strings.
# CrossHair realises a symbolic int as soon as it is formatted, which turns every error-message
# f-string (f"invalid: {event.created_at} is too old") into an unguided enumeration that can never
# be "Confirmed".  An obligation whose formatted ints only flow into log/exception *messages* (never
# into a value that is compared, parsed or executed) may set VK_OPAQUE_INT_FORMAT=1 (through
# vk.ob.opaque_int_format()); format(symbolic_int, "") then yields the constant text "<int>".
# Obligations that set it say so in their bounds.
import os as _os
import crosshair.core as _core
from crosshair.libimpl import builtinslib as _bl

_orig_format = _core._PATCH_REGISTRATIONS.get(format, _bl._format)


def _format_opaque(obj, format_spec=""):
    if _os.environ.get("VK_OPAQUE_INT_FORMAT") == "1":
        from crosshair.tracers import NoTracing
        with NoTracing():
            opaque = isinstance(obj, _bl.SymbolicIntable) and format_spec == ""
        if opaque:
            return "<int>"
    return _orig_format(obj, format_spec)


_core._PATCH_REGISTRATIONS[format] = _format_opaque


# --- opt-in: real functools.lru_cache semantics.
# CrossHair replaces every lru_cache call by a call of the wrapped function (caches would make runs
# nondeterministic), which hides defects that live in a cache (stale entries, keys that compare equal across
# types).  With VK_REAL_LRU=1 (vk.ob.real_lru_cache()) the cache is real; the obligation must then clear the
# caches of the modules it exercises at its start (vk.ob.fresh_module_state) and keep cached arguments concrete.
from functools import _lru_cache_wrapper as _lcw

_skip_patch = _core._PATCH_REGISTRATIONS.get(_lcw.__call__)


def _lru_call(self, *a, **kw):
    if _os.environ.get("VK_REAL_LRU") == "1":
        from crosshair.tracers import NoTracing
        with NoTracing():
            hit = _lcw.__call__
        return hit(self, *a, **kw)
    return _skip_patch(self, *a, **kw)


if _skip_patch is not None:
    _core._PATCH_REGISTRATIONS[_lcw.__call__] = _lru_call
