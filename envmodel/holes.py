"""Hole technique for the repo's code generators (DESIGN §2.5).

kv.compile_match_from_query builds Python source in which filter values appear only as repr()
literals, then exec()s it.  compile()/exec need concrete text, so a symbolic value would be
realised.  Instead the *real generator* runs (untraced) on Hole objects – whose repr() is a fresh
identifier and whose len()/truthiness are the concrete facts the generator branches on – and the
real generated function is then executed symbolically with the identifiers bound, in its globals,
to the actual (possibly symbolic) values.

Assumption (DESIGN §3.6): for str/int/tuple values repr() yields a literal that evaluates back to
the value.  What is *not* assumed: which clauses are generated, how they are combined, which
column they test, the exact/prefix choice, the skipping of falsy since/until.
"""
import builtins


class Hole:
    __slots__ = ("name", "length", "truth")

    def __init__(self, name, length=None, truth=True):
        self.name = name
        self.length = length
        self.truth = truth

    def __repr__(self):
        return self.name

    __str__ = __repr__

    def __format__(self, spec):
        return self.name

    def __len__(self):
        if self.length is None:
            raise TypeError("len() of a scalar hole")
        return self.length

    def __bool__(self):
        return self.truth

    def __hash__(self):
        return hash(self.name)

    def __eq__(self, other):
        return self is other


class HoleTuple(tuple):
    """a tuple of holes whose repr is a tuple display of identifiers, e.g. (__v0, __v1,)"""

    def __repr__(self):
        return "(" + "".join(repr(h) + "," for h in self) + ")"


def holeify(query_items):
    """query_items as built by kv.planner -> (items with holes, bindings).  Runs under tracing: the
    concrete facts (len of id/author strings, truthiness of since/until) are decided here."""
    out = []
    env = {}
    n = 0
    for key, value in query_items:
        if isinstance(key, str) and key in ("ids", "authors", "kinds", "since", "until", "search"):
            hkey = key
        else:
            hkey = Hole("__h%d" % n)
            env[hkey.name] = key
            n += 1
        if isinstance(value, tuple):
            hs = []
            for v in value:
                h = Hole("__h%d" % n, length=len(v) if isinstance(v, str) else None)
                env[h.name] = v
                n += 1
                hs.append(h)
            hval = HoleTuple(hs)
        else:
            h = Hole("__h%d" % n, truth=bool(value))
            env[h.name] = value
            n += 1
            hval = h
        out.append((hkey, hval))
    return tuple(out), env


_orig_compile = builtins.compile


def _compile_no_bare_except(src, *a, **k):
    # a bare `except:` would swallow CrossHair's control-flow exceptions (BaseException subclasses)
    if isinstance(src, str):
        src = src.replace("    except:\n", "    except Exception:\n")
    return _orig_compile(src, *a, **k)


def hole_compile(kv, query_items):
    """drop-in for kv.compile_match_from_query(query_items): the real generator on holes"""
    from crosshair.tracers import NoTracing
    items, env = holeify(query_items)
    kv.compile = _compile_no_bare_except
    with NoTracing():
        fn = kv.compile_match_from_query.__wrapped__(items)
    fn.__globals__.update(env)
    return fn


def install(kv):
    """make kv.matcher() use the hole-compiled real matcher"""
    if not hasattr(kv.compile_match_from_query, "__wrapped__"):
        return
    real = kv.compile_match_from_query

    def compile_match_from_query(query_items):
        return hole_compile(_KV[0], query_items)

    compile_match_from_query.__wrapped__ = real.__wrapped__
    _KV[0] = kv
    _REAL[0] = real
    kv.compile_match_from_query = compile_match_from_query


_KV = [None]
_REAL = [None]
