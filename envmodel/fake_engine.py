"""In-memory stand-in for the SQLAlchemy async engine that interprets the REAL SQLAlchemy Core statement
objects nostr_relay.storage.db builds (insert ... OR IGNORE / ON CONFLICT DO NOTHING, delete ... where, select
... where) against Python tables (DESIGN §3.3).  Values inside the statements (BindParameter.value) may be
symbolic.  Contract modelled:

  * `engine.begin()` is one transaction: all changes are dropped when the block is left by an exception;
  * INSERT OR IGNORE on a primary-key / unique conflict changes nothing and reports rowcount 0;
  * DELETE FROM events cascades to tags (ON DELETE CASCADE, PRAGMA foreign_keys=ON);
  * a SELECT without ORDER BY returns rows in an unspecified order: `reverse_order` (a symbolic bool
    chosen by the obligation) flips it;
  * `fail_at = k`: the k-th execute() raises a sqlalchemy.exc.OperationalError subclass (fault injection).
Raw-text statements (the garbage collector) are not interpreted (Unsupported).
"""
import sqlalchemy.exc as _sa_exc
import operator

import sqlalchemy as sa
from sqlalchemy.sql import elements as E
from sqlalchemy.sql import dml


class Unsupported(Exception):
    pass


class OperationalError(_sa_exc.OperationalError):
    """the injected engine fault IS a sqlalchemy.exc.OperationalError (what a real driver error surfaces as), so that a
    handler written against sa.exc.SQLAlchemyError sees it exactly as it would see a real one"""

    def __init__(self, msg):
        super().__init__(msg, None, Exception(msg))


def _bind(x):
    return x.value if isinstance(x, E.BindParameter) else x


def _eval(clause, row):
    if clause is None:
        return True
    if isinstance(clause, E.BooleanClauseList):
        vals = [_eval(c, row) for c in clause.clauses]
        if clause.operator is operator.and_:
            return all(vals)
        if clause.operator is operator.or_:
            return any(vals)
        raise Unsupported("boolean operator %r" % clause.operator)
    if isinstance(clause, E.Grouping):
        return _eval(clause.element, row)
    if isinstance(clause, E.BinaryExpression):
        left, right = clause.left, clause.right
        if isinstance(left, E.Cast) and isinstance(left.clause, sa.Column) and isinstance(left.type, sa.Integer):
            lv = _sqlite_cast_int(row[left.clause.name])
        elif isinstance(left, sa.Column):
            lv = row[left.name]
        else:
            raise Unsupported("left operand %r" % (left,))
        rv = _bind(right)
        op = clause.operator
        if op is operator.eq:
            return lv == rv
        if op is operator.lt:
            return lv < rv
        if op is operator.le:
            return lv <= rv
        if op is operator.gt:
            return lv > rv
        if op is operator.ge:
            return lv >= rv
        if op is operator.ne:
            return lv != rv
        raise Unsupported("operator %r" % (op,))
    raise Unsupported("where clause %r" % (type(clause).__name__,))


def _sqlite_cast_int(v):
    """SQLite CAST(text AS INTEGER): the longest numeric prefix (optional sign, digits), 0 if there is none"""
    if isinstance(v, int):
        return v
    if v is None:
        return None
    t = str(v).lstrip(" ")
    sign, i = 1, 0
    if t[:1] in ("+", "-"):
        sign = -1 if t[0] == "-" else 1
        i = 1
    j = i
    while j < len(t) and t[j].isdigit():
        j += 1
    return sign * int(t[i:j]) if j > i else 0


class Result:
    def __init__(self, rows=(), rowcount=-1):
        self.rows = list(rows)
        self.rowcount = rowcount

    def first(self):
        return self.rows[0] if self.rows else None

    fetchone = first

    def __iter__(self):
        return iter(self.rows)

    def fetchall(self):
        return list(self.rows)


class Conn:
    def __init__(self, db):
        self.db = db

    async def execute(self, stmt, params=None):
        db = self.db
        db.executes += 1
        db.log.append(type(stmt).__name__)
        if db.fail_at is not None and db.executes == db.fail_at:
            raise OperationalError("injected fault at statement %d" % db.executes)
        if isinstance(stmt, dml.Insert):
            return self._insert(stmt, params)
        if isinstance(stmt, dml.Delete):
            return self._delete(stmt)
        if isinstance(stmt, dml.Update):
            raise Unsupported("update")
        if isinstance(stmt, sa.sql.selectable.Select):
            return self._select(stmt)
        if isinstance(stmt, E.TextClause):
            return self._text(stmt, params)
        raise Unsupported("statement %r" % (type(stmt).__name__,))

    # ---- raw SQL text (sa.text): DELETE FROM <table> WHERE <expr> / SELECT <cols> FROM <table> [WHERE <expr>]
    # expr := term (OR term)* ; term := factor (AND factor)* ; factor := ( expr ) | column <op> value
    # value := :bind | 'literal' | number ;  AND binds tighter than OR, as in SQL
    def _text(self, stmt, params):
        from envmodel import sqlmini
        binds = dict(params or {})
        for k, b in getattr(stmt, "_bindparams", {}).items():
            if k not in binds and b.value is not None:
                binds[k] = b.value
        text = stmt.text
        try:
            toks = _tokenize_text(text)
        except sqlmini.Unsupported as e:
            raise Unsupported("text statement: %s" % e)
        p = _TextParser(toks, binds)
        head = p.word()
        if head == "delete":
            p.expect("from")
            table = p.word()
            cond = None
            if p.peek_word() == "where":
                p.word()
                cond = p.expr()
            p.end()
            keep, gone = [], []
            for r in self.db.tables[table]:
                (gone if (cond is None or _teval(cond, r)) else keep).append(r)
            self.db.tables[table] = keep
            if table == "events":
                for g in gone:
                    self.db.tables["tags"] = [t for t in self.db.tables["tags"] if not (t["id"] == g["id"])]
            return Result(rowcount=len(gone))
        if head == "select":
            cols = []
            while p.peek_word() != "from":
                w = p.word()
                if w != ",":
                    cols.append(w)
            p.expect("from")
            table = p.word()
            cond = None
            if p.peek_word() == "where":
                p.word()
                cond = p.expr()
            p.end()
            rows = [tuple(r.get(c) for c in cols) for r in self.db.tables[table] if cond is None or _teval(cond, r)]
            if self.db.reverse_order:
                rows.reverse()
            return Result(rows=rows)
        raise Unsupported("text statement %r" % head)

    def _insert(self, stmt, params):
        table = stmt.table.name
        ignore = any("IGNORE" in str(p[0]).upper() for p in getattr(stmt, "_prefixes", ())) or \
            getattr(stmt, "_post_values_clause", None) is not None
        rows = []
        if params is not None:
            rows = [dict(p) for p in (params if isinstance(params, (list, tuple)) else [params])]
        else:
            vals = stmt._values or {}
            rows = [{(k if isinstance(k, str) else k.name): _bind(v) for k, v in vals.items()}]
        n = 0
        for r in rows:
            if table == "events":
                if any(r["id"] == bad for bad in self.db.fail_ids):
                    raise OperationalError("injected fault: the engine rejects this row")
                if any(x["id"] == r["id"] for x in self.db.tables["events"]):
                    if ignore:
                        continue
                    raise OperationalError("UNIQUE constraint failed: events.id")
                self.db.tables["events"].append(r)
                n += 1
            elif table == "tags":
                if not any(x["id"] == r["id"] for x in self.db.tables["events"]):
                    raise OperationalError("FOREIGN KEY constraint failed")
                if any(x["id"] == r["id"] and x["name"] == r["name"] and x["value"] == r["value"] for x in self.db.tables["tags"]):
                    if ignore:
                        continue
                    raise OperationalError("UNIQUE constraint failed: tags")
                self.db.tables["tags"].append(r)
                n += 1
            else:
                self.db.tables.setdefault(table, []).append(r)
                n += 1
        return Result(rowcount=n)

    def _delete(self, stmt):
        table = stmt.table.name
        keep, gone = [], []
        for r in self.db.tables[table]:
            (gone if _eval(stmt.whereclause, r) else keep).append(r)
        self.db.tables[table] = keep
        if table == "events":
            for g in gone:
                self.db.tables["tags"] = [t for t in self.db.tables["tags"] if not (t["id"] == g["id"])]
        return Result(rowcount=len(gone))

    def _select(self, stmt):
        froms = stmt.get_final_froms()
        if len(froms) != 1:
            raise Unsupported("select from %d tables" % len(froms))
        table = froms[0].name
        cols = [c.name for c in stmt.selected_columns]
        rows = [tuple(r.get(c) for c in cols) for r in self.db.tables[table] if _eval(stmt.whereclause, r)]
        if self.db.reverse_order:
            rows.reverse()
        return Result(rows=rows)


class _Ctx:
    def __init__(self, db, txn):
        self.db = db
        self.txn = txn
        self.snap = None

    async def __aenter__(self):
        if self.txn:
            self.snap = {k: [dict(r) for r in v] for k, v in self.db.tables.items()}
            self.db.open_txns += 1
        return Conn(self.db)

    async def __aexit__(self, et, e, tb):
        if self.txn:
            self.db.open_txns -= 1
            if et is not None:
                self.db.tables = self.snap
                self.db.rollbacks += 1
            else:
                self.db.commits += 1
        return False


class FakeDB:
    def __init__(self, reverse_order=False):
        self.tables = {"events": [], "tags": [], "auth": [], "identity": []}
        self.executes = 0
        self.fail_at = None
        self.fail_ids = []      # event ids whose INSERT raises (engine-level rejection)
        self.reverse_order = reverse_order
        self.commits = self.rollbacks = self.open_txns = 0
        self.log = []

    def begin(self):
        return _Ctx(self, True)

    def connect(self):
        return _Ctx(self, False)


def _tokenize_text(text):
    from envmodel import sqlmini
    toks = []
    i, n = 0, len(text)
    while i < n:
        c = text[i]
        if c in " \t\r\n":
            i += 1
        elif c == ":" and i + 1 < n and (text[i + 1].isalpha() or text[i + 1] == "_"):
            j = i + 1
            while j < n and (text[j].isalnum() or text[j] == "_"):
                j += 1
            toks.append(("bind", text[i + 1:j]))
            i = j
        else:
            sub = sqlmini.tokenize(text[i:i + 1]) if c in "(),=<>*" and text[i:i + 2] not in (">=", "<=", "<>", "!=") else None
            if sub is not None:
                toks.append(sub[0])
                i += 1
            elif text[i:i + 2] in (">=", "<=", "<>", "!="):
                toks.append(("op", text[i:i + 2]))
                i += 2
            else:
                # identifiers, numbers, string literals: let sqlmini read one token
                j = i
                if c == "'":
                    j = i + 1
                    while j < n:
                        if text[j] == "'" and text[j:j + 2] != "''":
                            break
                        j += 2 if text[j:j + 2] == "''" else 1
                    j += 1
                else:
                    while j < n and (text[j].isalnum() or text[j] in "_."):
                        j += 1
                    if j == i:
                        raise sqlmini.Unsupported("character %r" % c)
                toks.extend(sqlmini.tokenize(text[i:j]))
                i = j
    return toks


class _TextParser:
    def __init__(self, toks, binds):
        self.t, self.i, self.binds = toks, 0, binds

    def peek(self):
        return self.t[self.i] if self.i < len(self.t) else ("eof", None)

    def peek_word(self):
        k, v = self.peek()
        return v.lower() if k == "id" else (v if k == "op" else None)

    def word(self):
        k, v = self.peek()
        if k not in ("id", "op"):
            raise Unsupported("unexpected token %r" % ((k, v),))
        self.i += 1
        return v.lower() if k == "id" else v

    def expect(self, w):
        if self.word() != w:
            raise Unsupported("expected %r" % w)

    def end(self):
        if self.peek()[0] != "eof":
            raise Unsupported("trailing tokens %r" % (self.t[self.i:],))

    def expr(self):
        node = self.term()
        while self.peek_word() == "or":
            self.word()
            node = ("or", node, self.term())
        return node

    def term(self):
        node = self.factor()
        while self.peek_word() == "and":
            self.word()
            node = ("and", node, self.factor())
        return node

    def factor(self):
        if self.peek() == ("op", "("):
            self.i += 1
            node = self.expr()
            if self.peek() != ("op", ")"):
                raise Unsupported("missing )")
            self.i += 1
            return node
        col = self.word().split(".")[-1]
        op = self.word()
        if op not in ("=", "<", ">", ">=", "<=", "<>", "!="):
            raise Unsupported("operator %r" % op)
        k, v = self.peek()
        self.i += 1
        if k == "bind":
            if v not in self.binds:
                raise Unsupported("unbound parameter :%s" % v)
            val = self.binds[v]
        elif k in ("str", "num", "blob"):
            val = bytes.fromhex(v) if k == "blob" else v
        else:
            raise Unsupported("value %r" % ((k, v),))
        return ("cmp", col, op, val)


def _teval(node, row):
    if node[0] == "or":
        return _teval(node[1], row) or _teval(node[2], row)
    if node[0] == "and":
        return _teval(node[1], row) and _teval(node[2], row)
    _, col, op, val = node
    if col not in row:
        raise Unsupported("unknown column %r" % col)
    lv = row[col]
    if op == "=":
        return lv == val
    if op in ("<>", "!="):
        return lv != val
    if op == "<":
        return lv < val
    if op == ">":
        return lv > val
    if op == ">=":
        return lv >= val
    return lv <= val
