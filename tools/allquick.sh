#!/bin/sh
# run every check's quick command sequentially; summary lines to stdout
cd /verif
for p in $(python3 -c "import json;print(' '.join(c['property_id'] for c in json.load(open('MANIFEST.json'))['checks']))"); do
  s=$(date +%s); ./check $p --tier quick > /tmp/allquick_$p.log 2>&1; rc=$?; e=$(date +%s)
  echo "$p exit=$rc $((e-s))s $(grep SUMMARY /tmp/allquick_$p.log | cut -c1-160)"
  grep -E "^(VIOLATION|INCONCLUSIVE|HARNESS|KNOWN)" /tmp/allquick_$p.log | cut -c1-220
done
