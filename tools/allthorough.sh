#!/bin/sh
# run every check's thorough command sequentially (hours); summary lines to stdout
cd "$(dirname "$0")/.."
for p in $(python3 -c "import json;print(' '.join(c['property_id'] for c in json.load(open('MANIFEST.json'))['checks']))"); do
  s=$(date +%s); ./check $p --tier thorough > /tmp/allthorough_$p.log 2>&1; rc=$?; e=$(date +%s)
  echo "$p exit=$rc $((e-s))s $(grep SUMMARY /tmp/allthorough_$p.log | cut -c1-160)"
  grep -E "^(VIOLATION|INCONCLUSIVE|HARNESS|KNOWN)" /tmp/allthorough_$p.log | cut -c1-200
done
