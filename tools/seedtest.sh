#!/bin/sh
# usage: tools/seedtest.sh <patch.diff> <prop> [extra check args]  -- apply a seeded change to /repo, run the check, undo
P="$1"; PROP="$2"; shift 2
cd /repo || exit 9
if ! git diff --quiet; then echo "repo dirty"; exit 9; fi
git apply "$P" || { echo "patch does not apply"; exit 9; }
cd /verif
./check "$PROP" "$@" > /tmp/seedtest_$$.log 2>&1
rc=$?
git -C /repo checkout -- .
grep -E "^(VIOLATION|  obligation|SUMMARY|INCONCLUSIVE|HARNESS|KNOWN)" /tmp/seedtest_$$.log | cut -c1-400
echo "exit=$rc"
rm -f /tmp/seedtest_$$.log
git -C /verif checkout -- evidence 2>/dev/null
