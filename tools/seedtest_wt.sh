#!/bin/sh
# usage: tools/seedtest_wt.sh <seed-id> <prop> [check args]: apply /verif/seeded/<id>/patch.diff in a scratch worktree of /repo
# HEAD, run the property's check against that worktree (VK_REPO), remove the worktree.  /repo itself is not touched.
ID="$1"; PROP="$2"; shift 2
WT=/tmp/seedwt_$ID
git -C /repo worktree remove --force $WT >/dev/null 2>&1
git -C /repo worktree add -q --detach $WT HEAD || exit 9
( cd $WT && ( git apply /verif/seeded/$ID/patch.diff 2>/dev/null || git apply -3 /verif/seeded/$ID/patch.diff ) ) || { echo "patch does not apply"; git -C /repo worktree remove --force $WT; exit 9; }
cd /verif
VK_REPO=$WT VK_EVIDENCE_DIR=/tmp/seed_evidence ./check "$PROP" "$@" > /tmp/seedtest_$ID.log 2>&1
rc=$?
git -C /repo worktree remove --force $WT
echo "== $ID on $PROP exit=$rc"
grep -E "^(VIOLATION|  obligation|SUMMARY|INCONCLUSIVE|HARNESS|KNOWN)" /tmp/seedtest_$ID.log | cut -c1-300
