#!/usr/bin/env python3
"""Run /repo's pinned suite and check that every stable_pass test of /root/.vp/BASELINE.json passes."""
import json, os, subprocess, sys, tempfile, xml.etree.ElementTree as ET
base = json.load(open("/root/.vp/BASELINE.json"))
out = tempfile.mktemp(suffix=".xml")
env = dict(os.environ, COVERAGE_FILE=tempfile.mktemp())
subprocess.run("cd /repo && /venv/bin/python -m pytest -ra -q -p no:cacheprovider --timeout=900 --continue-on-collection-errors --junitxml=%s" % out,
               shell=True, env=env, stdout=subprocess.DEVNULL, stderr=subprocess.DEVNULL)
ok = set()
for tc in ET.parse(out).getroot().iter("testcase"):
    name = "%s::%s" % (tc.get("classname"), tc.get("name"))
    if not any(ch.tag in ("failure", "error", "skipped") for ch in tc):
        ok.add(name)
missing = [t for t in base["stable_pass"] if t not in ok]
print("stable_pass passing: %d/%d" % (len(base["stable_pass"]) - len(missing), len(base["stable_pass"])))
for m in missing:
    print("NOT PASSING:", m)
for f in (out, env["COVERAGE_FILE"], "/repo/.coverage"):
    if os.path.exists(f):
        os.remove(f)
sys.exit(1 if missing else 0)
