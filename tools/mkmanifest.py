#!/usr/bin/env python3
"""Regenerate MANIFEST.json from the table below (keeps the file valid and uniform)."""
import json, os
ROOT = os.path.dirname(os.path.dirname(os.path.abspath(__file__)))
TECH = "bounded symbolic execution of the real /repo functions (CrossHair 0.0.110 + z3): 'Confirmed over all paths' per obligation, counterexamples replayed concretely"
NOTE_COMMON = ("Holds only inside the bounds printed in evidence (pre: lines). Trusted: CrossHair/z3, the environment models under "
               "/verif/stubs and /verif/envmodel (lmdb contract model, msgpack identity, fake asyncio, SQL subset, crypto oracle), "
               "reference semantics under /verif/refs. Inconclusive obligations are reported and not counted.")
CHECKS = {
 "C01": dict(text="Both backends. LMDB: the real planner + the real generated residual matcher (hole technique) against reference NIP-01 matching for 8 filter shapes (ints symbolic incl. since/until = 0, strings solver-selected, event tags incl. int/object items); the real repr()-based compilation on 13 hostile names/values; ids_are_hex / check_tags on symbolic suffixes and every JSON type. SQL: the real build_query template (holes) parsed and evaluated by sqlmini over a symbolic row, row-wise equivalence with the reference for 8 shapes (two filters, two tag names); the real evaluate_filter on SYMBOLIC tag name/values (quote, backslash, NUL, percent) for both dialect branches; quoting lemma for all strings <=3 characters over the lexical classes.",
             ref="5 C01", note="repr()/SQL literals are assumed to evaluate back to their value and that is checked on hostile pools and symbolic strings up to the stated lengths; SQLite's own evaluation is outside. "),
 "C02": dict(text="LMDB scanner completeness per index (kinds, authors, author+kind, tags in two value families incl. prefixes/NUL/empty, created_at range scan, ids; timestamp byte low/top; 1-2 matches) over every store of <=2 records (3 in thorough for three indexes); completeness direction of the generated matcher (8 shapes) and of the SQL WHERE clause (8 shapes). End-to-end exactly-once / under-the-limit completeness runs under C12 (same code path).",
             ref="5 C02", note="lmdb contract model; planner/executor thread pool and FTS outside. "),
 "C03": dict(text="is_signed + Event.verify with SHA-256/secp256k1 replaced by a class-level solver-chosen oracle: acceptance implies id == hash of the event's own fields, signature accepted under the event's pubkey, every delegation tag accepted; 13 tag shapes x 5 created_at types x hex variants never pass malformed; a second submission with the same id but another sig / forged delegation / other pubkey is rejected (verification caches).",
             ref="5 C03", note="crypto is an oracle (claims hold for any behaviour of the crypto); gate-before-effects is covered by C06/C14/C16 obligations. "),
 "C04": dict(text="EVENT/EOSE frames from the real serializer and sender for a symbolic sub id / content / tag item (<=2 characters over 10 lexical classes) and symbolic tag structure with items of every JSON type (incl. values equal across types, real lru_cache) equal the trusted rendering or parse to the expected array; numbers by hole technique; the event read back from SQL rows / LMDB msgpack rows / the matcher reconstruction and the object pushed live equal the accepted event field for field incl. types.",
             ref="5 C04", note="encode_basestring (C) replaced by a reference validated against it at import; msgpack identity stub; SQLite column affinity outside. "),
 "C05": dict(text="check_event equals the real LMDB matcher (6 shapes) and the SQL WHERE clause (6 shapes) for symbolic ints and solver-selected strings (excused: ephemeral kinds, bound timestamps, LMDB delegation); fan-out over 2 connections x <=2 subscriptions (same sub id on both, closed/replaced subscriptions, events before/after the stored-query tasks ran, textually colliding ClientIDs) delivers each of two consecutive events exactly once per matching open subscription.",
             ref="5 C05", note="loop model envmodel/fake_asyncio.py; stored-query task body stubbed by its contract; interleavings beyond the model outside. "),
 "C06": dict(text="Exactly one OK frame per EVENT through the real handler for every storage outcome/throttle/limiter/payload/auth combination; LMDB: OK true implies retrievable after the writer ran (created_at/kind at 2^32, 2^64, -1; tag shapes), refusal leaves no trace, duplicates (stored or still queued) are not acknowledged or broadcast again; SQL: duplicate / fresh / no-permission submissions, sequences of <=4 submissions incl. re-submitted deletions, notification only after commit.",
             ref="5 C06", note="writer thread body executed synchronously on the lmdb model; SQL via the engine model; msgpack 64-bit overflow of tag ints not modelled. "),
 "C07": dict(text="Engine-fault half only. LMDB writer with the k-th mutation failing (k symbolic) while an event is applied in 5 scenarios: store equals the state before, next task applied, fault in the next task all-or-nothing. SQL add_event with the k-th statement failing: tables unchanged, insert slot released, nothing broadcast, next event stored.",
             ref="5 C07", note="a transaction of the engine is assumed atomic (contract models); process kill / reopen / torn pages / fsync are behaviour of liblmdb/SQLite behind FFI and of the file system and cannot be encoded (DESIGN 6) - that half is NOT claimed. "),
 "C08": dict(text="Both backends: store {e0, bystander} + arriving kind-5 event with symbolic authors, timestamps (older/equal/newer) and e/p tags by selector (own, foreign, unknown, non-hex, bare, upper-case ids; pairs on SQL): removed set within the must/may sets of refs/effects.py, everything else untouched; /e/<id> no longer serves an event its author deleted (viewed before or not).",
             ref="5 C08", note="lmdb contract model / SQL engine model (also interprets raw SQL text DML). "),
 "C09": dict(text="Both backends: kinds {0,3,10000,19999,30000,39999} vs neighbours {1,4,9999,20000,40000,10001}, d tags {absent,a,ab,bare,empty,unicode}, symbolic authors and timestamps (in-order, out-of-order, equal), one or two older versions present, symbolic SELECT order: older same-address versions removed, nothing else; no valid event refused.",
             ref="5 C09", note="histories of 2-3 events. "),
 "C10": dict(text="LMDB key set == tombstone + primary + index keys (reference layout) of the stored events after 20 families of histories; write/clear symmetry for symbolic kind/created_at; tag values equal across JSON types with real caches; coherence after an injected engine failure at a symbolic mutation.",
             ref="5 C10", note="lmdb contract model; msgpack identity stub; FTS index absent and outside. "),
 "C11": dict(text="LMDB end to end: answers unchanged by a non-matching neighbour (5 shapes), narrower filters return subsets, multi-value answers equal the union of single-value answers (with optional until); SQL: the narrower filter's WHERE implies the wider one's (extra tag condition, since incl. since == until, smaller until).",
             ref="5 C11", note="stores of 1-2 events + 1 neighbour. "),
 "C12": dict(text="LMDB end to end over stores of 2 symbolic events, every index incl. chained and composite, symbolic limit: <= limit, sound, exactly once, complete under the limit, newest first (per-value scan order of multi-value filters = known finding); client limits 0..10^9 capped by max_limit; SQL: LIMIT = min(n, max_limit) incl. n = 0 and ORDER BY created_at DESC for 4 filter shapes (one shared LIMIT for several filters = known finding).",
             ref="5 C12", note="known findings are listed in known_findings.jsonl with narrow triggers; the obligation is re-run with the trigger excluded. "),
 "C13": dict(text="Every REQ shape (6 sub-id types x 8 filter-list shapes x 0-2 stored events x permission) is answered by stored events + exactly one EOSE or by a NOTICE; sequences of <=2 (3) messages from 10 (REQ/CLOSE/replace incl. invalid or missing filters and numeric ids) followed by another connection's EVENT: EOSE/NOTICE counts, live delivery only to open matching subscriptions, limit respected, registry empty after disconnect.",
             ref="5 C13", note="loop model: the next client message is delivered when the relay is idle. "),
 "C14": dict(text="can_do == role-set intersection for all subsets of a 3-role alphabet, token shapes and actions; save gate on both backends and query gate raise 'restricted' before any effect; output validator consulted on live pushes; homeserver recipe validators equal their documented predicate.",
             ref="5 C14", note="role read-back through the SQL engine / signed service events is outside (engine + secp256k1). "),
 "C15": dict(text="check_auth_event/authenticate for every combination of <=2 (3) tags out of 13 variants, symbolic kind/created_at/now and signature oracle, four configurations of relay_urls; replay of a genuine answer with altered signed content (verification caches); every challenge a fresh 128-bit draw per connection.",
             ref="5 C15", note="signature = oracle; unpredictability of secrets.token_hex itself is not a solver question. "),
 "C16": dict(text="Each validator raises iff its documented bound is violated (symbolic sizes, clocks, kinds, key selectors, PoW bits, p-tag counts); pipeline order/fail-closed; dynamic list contents after refresh; no admission window during refresh with a concurrent validation after every set mutation.",
             ref="5 C16", note="threads modelled at set-operation granularity (GIL); verification.py (NIP-05) cannot be imported and is outside. "),
 "C17": dict(text="Both backends: a collector pass at T in {1700000000, 1000, 999, 2*10^9} over 2 events with expiration values T-1/T/T+1/far future/malformed/empty/fewer digits/digit-prefixed text and kinds around the ephemeral range removes exactly the expired and ephemeral ones with all index/tag rows; ephemeral kinds are broadcast but never queued on LMDB; the periodic driver survives collector exceptions.",
             ref="5 C17", note="lmdb contract model / SQL engine model. "),
 "C18": dict(text="Every arrival sequence of <=3 (4) messages over an integer clock, rule sets of one or two rules per scope (ip/global/address), two addresses, two commands: window bound, no over-blocking, address override, exemption, bounded state, cleanup interleaved with arrivals, option parsing.",
             ref="5 C18", note="clock = arbitrary non-decreasing integers (exact arithmetic; float rounding outside). "),
 "C19": dict(text="One symbolic parsed message (8 heads x 32 JSON values of every type x 6 x arity, or a bare value) in 3 handler modes, delivered when idle or buffered in advance, followed by a probe REQ and a disconnect, next to a second connection: nothing escapes, the probe is answered or the socket closed, only protocol frames, registry and tasks cleaned up, the other connection untouched; failing EVENTs against the SQL store never wedge a later connection.",
             ref="5 C19", note="raw text -> JSON assumed to return a JSON value or raise; resource exhaustion outside. "),
 "C20": dict(text="NotifyClient.connect and NotifyServer.handle_notify over a fake stream whose chunk boundaries, disconnect offset and handler schedule are symbolic selectors: ids looked up == ids announced, whole frames only, no echo, complete ids relayed even when the sender disconnects mid-frame; announce iff notifier enabled, exactly once and only after the SQL transaction committed.",
             ref="5 C20", note="asyncio streams replaced by a fake reader implementing read/readexactly per the asyncio contract; real TCP outside. "),
}
NA = {}
def main():
    props = [json.loads(l)["id"] for l in open(os.path.join(ROOT, "properties.jsonl"))]
    checks = []
    for pid in props:
        if pid in CHECKS:
            c = CHECKS[pid]
            checks.append(dict(property_id=pid, quick_cmd="./check %s --tier quick" % pid,
                               thorough_cmd="./check %s --tier thorough" % pid,
                               evidence_file="evidence/%s.json" % pid,
                               replay_cmd_template="./check --replay {path}", engine="vk-crosshair",
                               level_claimed=dict(category="other", text=c["text"], design_ref=c["ref"]),
                               level_note=c.get("note", "") + NOTE_COMMON, technique=c.get("technique", TECH)))
    na = [dict(property_id=p, reason=NA.get(p, "check not built yet (work in progress; see DESIGN.md §8)")) for p in props if p not in CHECKS]
    m = dict(version=1, setup_cmd="./setup.sh",
             hooks=dict(guard="NOSTR_RELAY_VERIF", enable="no source hooks are needed: the harness substitutes module-level names (asyncio, sa, json_loads, ClientID, lmdb, msgpack) at import time; NOSTR_RELAY_VERIF=1 is exported by the runner for completeness",
                        baseline_off_cmd="cd /repo && /venv/bin/python -m pytest -ra -q -p no:cacheprovider --timeout=900 --continue-on-collection-errors",
                        source_commits=[], add_only=True),
             engines=[dict(name="vk-crosshair", path="vk/", serves_properties=sorted(CHECKS), kind_free_text="runner that executes harness/Cxx_*.py obligations with CrossHair (symbolic execution, z3), replays counterexamples, applies known_findings.jsonl, writes evidence")],
             checks=checks, not_applicable=na,
             notes="See DESIGN.md. Exit codes: 0 ok, 1 VIOLATION, 3 harness error (non-reproducing counterexample / environment).")
    json.dump(m, open(os.path.join(ROOT, "MANIFEST.json"), "w"), indent=1)
    print("checks:", len(checks), "not_applicable:", len(na))
main()
