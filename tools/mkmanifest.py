#!/usr/bin/env python3
"""Regenerate MANIFEST.json from the table below (keeps the file valid and uniform)."""
import json, os
ROOT = os.path.dirname(os.path.dirname(os.path.abspath(__file__)))
TECH = "bounded symbolic execution of the real /repo functions (CrossHair 0.0.110 + z3): 'Confirmed over all paths' per obligation, counterexamples replayed concretely"
NOTE_COMMON = ("Holds only inside the bounds printed in evidence (pre: lines). Trusted: CrossHair/z3, the environment models under "
               "/verif/stubs and /verif/envmodel (lmdb contract model, msgpack identity, fake asyncio, SQL subset, crypto oracle), "
               "reference semantics under /verif/refs. Inconclusive obligations are reported and not counted.")
CHECKS = {
 "C18": dict(text="Every arrival sequence of <=3 (quick) / <=4 (thorough) messages over an integer clock, rule sets of one or two rules per scope (ip/global/address), two addresses, two commands: window bound, no over-blocking, address override, exemption, bounded state, cleanup, option parsing – decided per obligation by the solver over all values in the bounds.",
             ref="§5 C18", note="clock = arbitrary non-decreasing integers (exact arithmetic; float rounding outside the claim). "),
 "C02": dict(text="LMDB scanner completeness per index (kinds, authors, author+kind, tags, created_at range scan, ids): every store of <=2 records (3 in the thorough tier for kinds/created_at/ids) with one symbolic byte per value/timestamp/id, 1-2 match values in planner order, symbolic since/until: each record whose value is requested and whose created_at is strictly inside the window is yielded. Decided by the solver over all byte values inside the bounds.",
             ref="§5 C02", note="LMDB replaced by the contract model stubs/lmdb (sorted key list, MDB_SET_RANGE/MDB_PREV semantics). SQL side and planner/end-to-end obligations: see evidence for what is currently included. "),
 "C04": dict(text="EVENT and EOSE frames produced by the real serializer/sender for a symbolic sub id, content or tag item (<=2 characters over an alphabet with one representative per JSON lexical class) and symbolic tag structure equal the frame assembled with the trusted encoders or parse (json.loads) to the expected array.",
             ref="§5 C04", note="json.encoder.encode_basestring (C) replaced by a reference implementation validated against it at import; numbers checked by the hole technique (concrete). "),
 "C03": dict(text="is_signed + Event.verify with SHA-256/secp256k1 replaced by a solver-chosen oracle: acceptance implies the claimed id equals the hash of the event's own fields, the signature oracle accepted (sig, hash) under the event's pubkey and every delegation tag was accepted; type-confused fields (13 tag shapes, 5 created_at types, 5 hex variants) never pass.",
             ref="§5 C03", note="crypto is an oracle (claims hold for any behaviour of the crypto); admission-path gating (no effect before validation) is covered by C06/C14 obligations. "),
 "C14": dict(text="can_do == role-set intersection for all subsets of a 3-role alphabet, all token shapes and actions; save gate on both backends and query gate in subscribe raise 'restricted' before any effect; output validator consulted on live pushes; homeserver recipe validators equal their documented predicate.",
             ref="§5 C14", note="storages are instantiated without constructors, everything behind the gate is a recorder stub; role read-back through the SQL engine / signed service events is outside (engine + secp256k1). "),
 "C15": dict(text="check_auth_event/authenticate for every combination of <=2 (thorough 3) tags out of 13 tag variants (URL substrings/superstrings/empty, foreign or truncated challenges, bare tags), symbolic kind/created_at/now and signature oracle, four ways of configuring relay_urls: acceptance implies valid signature, kind 22242, |now-created_at|<600, every relay tag equals a configured URL, every challenge tag equals this connection's challenge.",
             ref="§5 C15", note="signature = oracle bool; unpredictability of secrets.token_hex is not a solver question (outside). "),
 "C16": dict(text="Each validator raises iff its documented bound is violated (symbolic sizes, clocks, kinds, key selectors, PoW bits, p-tag counts); pipeline order/fail-closed; dynamic list contents after refresh; no admission window during refresh with a concurrent validation after every set mutation.",
             ref="§5 C16", note="clock symbolic ints; executor replaced by a synchronous call; threads modelled at set-operation granularity (GIL); verification.py (NIP-05) cannot be imported (nostr_bot absent) and is outside. "),
 "C20": dict(text="NotifyClient.connect and NotifyServer.handle_notify driven over a fake stream whose chunk boundaries, disconnect offset and handler schedule are symbolic selectors: ids looked up == ids announced (intact, in order, once), nothing for a truncated id, receivers see whole frames only, no echo to the sender, announce iff notifier enabled.",
             ref="§5 C20", note="asyncio streams replaced by a fake reader implementing read/readexactly per the asyncio contract; <=2 ids, 2 senders + 1 receiver; real TCP outside. "),
 "C01": dict(text="LMDB residual matcher: the real code generator (kv.compile_match_from_query, fed by the real planner) run on holes and its generated predicate executed symbolically against reference NIP-01 matching for 8 filter shapes, all values symbolic (ints) or solver-selected (strings); plus the real repr()-based compilation for 13 hostile names/values (quotes, backslash, NUL, injection attempts).",
             ref="§5 C01", note="hole technique (DESIGN 2.5): repr() literals of str/int/tuple are assumed to evaluate back to the value and that assumption is validated by ob_literal_roundtrip on the hostile pool. SQL side: see evidence for what is currently included. "),
 "C08": dict(text="LMDB: store {e0, bystander} + arriving kind-5 event with symbolic authors, timestamps (older/equal/newer) and e/p tags by selector (own, foreign, unknown, non-hex, bare, upper-case ids): removed set within the must/may sets of refs/effects.py, everything else and index coherence untouched.",
             ref="§5 C08", note="LMDB via the contract model (cursor tracking as liblmdb); SQL side: see evidence. "),
 "C09": dict(text="LMDB: store {e0} + arriving e1 over kinds {0,3,10000,19999,30000,39999} vs neighbours {1,4,9999,20000,40000}, d tags {absent,a,ab,bare,empty,unicode}, symbolic authors and timestamps (in-order, out-of-order, equal): older same-address versions removed, nothing else.",
             ref="§5 C09", note="LMDB via the contract model; histories of 2 events (3 in C10); SQL side: see evidence. "),
 "C10": dict(text="LMDB key set == tombstone + primary + index keys (reference layout) of the stored events after 20 families of histories (add, duplicate add, delete stored/unknown id, replaceable, parameterised replaceable, kind-5, ephemeral) with symbolic authors/timestamps and tag shapes by selector; write/clear symmetry for symbolic kind/created_at.",
             ref="§5 C10", note="LMDB via the contract model stubs/lmdb; msgpack identity stub; FTS index (whoosh) absent and outside. "),
 "C05": dict(text="Live matching (check_event) equals the real LMDB residual matcher for 6 filter shapes with symbolic ints and solver-selected strings (excused: ephemeral kinds, bound timestamps, LMDB delegation); fan-out over a registry of 2 connections x <=2 subscriptions (same sub id on both, closed and replaced subscriptions) delivers each of two consecutive events exactly once per matching open subscription.",
             ref="§5 C05", note="loop model envmodel/fake_asyncio.py (FIFO ready queue; environment chooses who speaks next); stored-query tasks stubbed; arbitrary interleavings of relay-internal tasks beyond that model are outside. "),
 "C06": dict(text="Exactly one OK frame per EVENT through the real handler for every storage outcome/throttle/limiter/payload combination; LMDB: OK true implies the event is retrievable after the writer ran (boundary timestamps/kinds 2^31..2^64, tag shapes), refusal leaves no trace, duplicate is not acknowledged or broadcast again.",
             ref="§5 C06", note="writer thread body executed synchronously on the lmdb model; msgpack identity stub (64-bit overflow of tag ints not modelled); SQL side: see evidence. "),
 "C13": dict(text="Every REQ shape (6 sub-id types x 8 filter-list shapes x 0-2 stored events x permission) is answered by stored events + exactly one EOSE or by a NOTICE; message sequences REQ/CLOSE/replace on one connection followed by another connection's EVENT: EOSE/NOTICE counts, live delivery only to open matching subscriptions, limit respected, registry empty after disconnect.",
             ref="§5 C13", note="loop model: the client's next message is delivered when the relay is idle; stored-query body stubbed by its contract (events then one sentinel). "),
 "C19": dict(text="One symbolic parsed message (8 heads x 32 JSON values of every type x 6 x arity, or a bare value) in 3 handler modes, followed by a probe REQ and a disconnect, next to a second connection: no exception escapes, the probe is answered or the socket closed, only protocol frames are sent, registry and tasks cleaned up, the other connection untouched.",
             ref="§5 C19", note="raw text -> JSON (rapidjson) assumed to return a JSON value or raise JSONDecodeError; sizes/nesting depth are resource questions outside. "),
 "C07": dict(text="LMDB writer with the engine failing at a symbolic mutation inside the application of an event (regular, replacing, parameterised-replacing, deleting, ephemeral scenarios): the store equals exactly the state before the event, the next queued task is applied completely, a fault inside the next task leaves it all-or-nothing.",
             ref="§5 C07", note="ONLY the injected-engine-error half of the property: a transaction of the engine is assumed atomic (contract model); process kill, reopen, torn pages and fsync are behaviour of liblmdb/SQLite behind FFI and the file system and cannot be encoded (DESIGN §6) – that half is not claimed. SQL side: see evidence. "),
 "C11": dict(text="LMDB end to end (real planner, scanner, generated matcher): the answer to a filter is unchanged by storing a non-matching neighbour (adjacent kind, extending/prefixing tag value, equal timestamp with smaller/larger id, other author), narrower filters return subsets, multi-value answers equal the union of single-value answers.",
             ref="§5 C11", note="stores of 1-2 events + 1 neighbour on the lmdb contract model; SQL side follows from the row-wise WHERE predicate (see evidence for what is included). "),
 "C12": dict(text="LMDB end to end: stores of 2 symbolic events, 6 filter shapes (all indexes incl. chained and composite), symbolic limit: never more than the limit, everything returned matches, nothing twice, nothing missing when under the limit, nothing newer left out (per-value scan order of multi-value filters is a recorded known finding); client limits are capped by max_limit for every limit up to 10^9.",
             ref="§5 C12", note="lmdb contract model; generated matcher via holes; SQL LIMIT/ORDER BY: see evidence. "),
 "C17": dict(text="LMDB garbage-collection pass over stores of 2 events with expiration values around T (T-1, T, T+1, far future, malformed, empty, fewer digits) for T in {1700000000, 1000, 999, 2000000000}: exactly the expired events are removed with all index entries; ephemeral kinds are broadcast but never queued for storage (symbolic kind around both range ends); the periodic driver survives collector exceptions.",
             ref="§5 C17", note="lmdb contract model; the SQL collector is one fixed DELETE statement whose relational meaning is SQLite/Postgres behaviour (outside; see DESIGN). "),
}
NA = {}
def main():
    props = [json.loads(l)["id"] for l in open(os.path.join(ROOT, "properties.jsonl"))]
    checks = []
    for pid in props:
        if pid in CHECKS:
            c = CHECKS[pid]
            checks.append(dict(property_id=pid, quick_cmd="./check %s --tier quick" % pid,
                               thorough_cmd="./check %s --tier thorough" % pid,
                               evidence_file="evidence/%s.json" % pid,
                               replay_cmd_template="./check --replay {path}", engine="vk-crosshair",
                               level_claimed=dict(category="other", text=c["text"], design_ref=c["ref"]),
                               level_note=c.get("note", "") + NOTE_COMMON, technique=c.get("technique", TECH)))
    na = [dict(property_id=p, reason=NA.get(p, "check not built yet (work in progress; see DESIGN.md §8)")) for p in props if p not in CHECKS]
    m = dict(version=1, setup_cmd="./setup.sh",
             hooks=dict(guard="NOSTR_RELAY_VERIF", enable="no source hooks are needed: the harness substitutes module-level names (asyncio, sa, json_loads, ClientID, lmdb, msgpack) at import time; NOSTR_RELAY_VERIF=1 is exported by the runner for completeness",
                        baseline_off_cmd="cd /repo && /venv/bin/python -m pytest -ra -q -p no:cacheprovider --timeout=900 --continue-on-collection-errors",
                        source_commits=[], add_only=True),
             engines=[dict(name="vk-crosshair", path="vk/", serves_properties=sorted(CHECKS), kind_free_text="runner that executes harness/Cxx_*.py obligations with CrossHair (symbolic execution, z3), replays counterexamples, applies known_findings.jsonl, writes evidence")],
             checks=checks, not_applicable=na,
             notes="See DESIGN.md. Exit codes: 0 ok, 1 VIOLATION, 3 harness error (non-reproducing counterexample / environment).")
    json.dump(m, open(os.path.join(ROOT, "MANIFEST.json"), "w"), indent=1)
    print("checks:", len(checks), "not_applicable:", len(na))
main()
