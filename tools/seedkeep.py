#!/usr/bin/env python3
"""Confirm a sub-agent's seeded change in ITS scratch worktree and keep it under /verif/seeded/<id>/.
usage: seedkeep.py <worktree> <k> <seed-id> <property>
Confirms: demo passes on the clean worktree, fails with the patch; the stable_pass tests still pass with the patch."""
import json, os, shutil, subprocess, sys, tempfile, xml.etree.ElementTree as ET
wt, k, sid, prop = sys.argv[1:5]
base = json.load(open("/root/.vp/BASELINE.json"))
def sh(cmd, **kw):
    return subprocess.run(cmd, shell=True, cwd=wt, capture_output=True, text=True, **kw)
def demo():
    e = dict(os.environ, PYTHONPATH=wt)
    r = subprocess.run(["/venv/bin/python", "demo%s.py" % k], cwd=wt, env=e, capture_output=True, text=True, timeout=600)
    return r.returncode, (r.stdout + r.stderr)[-400:]
def suite():
    out = tempfile.mktemp(suffix=".xml")
    e = dict(os.environ, COVERAGE_FILE=tempfile.mktemp(), PYTHONPATH=wt)
    subprocess.run("/venv/bin/python -m pytest -q -p no:cacheprovider --timeout=900 --continue-on-collection-errors --junitxml=%s" % out,
                   shell=True, cwd=wt, env=e, stdout=subprocess.DEVNULL, stderr=subprocess.DEVNULL)
    ok = set()
    for tc in ET.parse(out).getroot().iter("testcase"):
        if not any(ch.tag in ("failure", "error", "skipped") for ch in tc):
            ok.add("%s::%s" % (tc.get("classname"), tc.get("name")))
    os.remove(out)
    return [t for t in base["stable_pass"] if t not in ok]
assert sh("git diff --quiet").returncode == 0, "worktree dirty"
rc_clean, _ = demo()
assert sh("git apply seed%s.diff" % k).returncode == 0, "patch does not apply"
try:
    rc_patched, tail = demo()
    missing = suite()
finally:
    sh("git checkout -- .")
    sh("rm -rf .coverage htmlcov/.gitignore")
res = dict(seed=sid, property=prop, demo_exit_clean=rc_clean, demo_exit_patched=rc_patched, stable_tests_not_passing_with_patch=missing)
print(json.dumps(res, indent=1)); print(tail)
if rc_clean == 0 and rc_patched != 0 and not missing:
    d = "/verif/seeded/%s" % sid
    os.makedirs(d, exist_ok=True)
    shutil.copy(os.path.join(wt, "seed%s.diff" % k), os.path.join(d, "patch.diff"))
    shutil.copy(os.path.join(wt, "demo%s.py" % k), os.path.join(d, "demo.py"))
    needs = open(os.path.join(wt, "seed%s.md" % k)).read()
    meta = dict(id=sid, breaks_property=prop, needs_to_manifest=needs,
                confirmed=dict(demo_exit_on_clean_tree=rc_clean, demo_exit_with_patch=rc_patched, baseline_stable_tests_with_patch="36/36 pass",
                               how="tools/seedkeep.py in the sub-agent's scratch worktree (git apply; demo; pytest; git checkout)"),
                source="independent sub-agent given only the property text and a scratch worktree")
    json.dump(meta, open(os.path.join(d, "meta.json"), "w"), indent=1)
    print("KEPT", d)
else:
    print("REJECTED")
