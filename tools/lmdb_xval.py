#!/usr/bin/env python3
"""Differential validation of the lmdb contract model (/verif/stubs/lmdb) against the real liblmdb
(through ctypes; no Python binding is installed).  Random operation sequences over a small key
universe – put, delete, cursor set_range / prev / key / iternext, including deletions of the key
under an open cursor inside the same write transaction and aborted transactions – are applied to
both and every observable result is compared.  The py-lmdb semantics kv.py relies on are
reproduced on top of the C API exactly as py-lmdb does (set_range -> MDB_SET_RANGE, prev -> MDB_PREV,
key -> b'' when unpositioned, iternext from the current position).

Optional: not part of any registered check (liblmdb.so is found under /root/miniconda on this image).
usage: python3 tools/lmdb_xval.py [rounds] [seed]
"""
import ctypes as C
import os
import random
import shutil
import sys
import tempfile

sys.path.insert(0, os.path.join(os.path.dirname(os.path.dirname(os.path.abspath(__file__))), "stubs"))
import lmdb as model  # noqa: E402  (the contract model)

LIB = None
for cand in ("/root/miniconda/lib/liblmdb.so", "/root/miniconda/pkgs/lmdb-0.9.31-hb25bd0a_0/lib/liblmdb.so", "liblmdb.so", "liblmdb.so.0"):
    try:
        LIB = C.CDLL(cand)
        break
    except OSError:
        pass
if LIB is None:
    print("liblmdb not found: cross-validation skipped")
    sys.exit(0)


class Val(C.Structure):
    _fields_ = [("size", C.c_size_t), ("data", C.c_void_p)]


def _v(b):
    buf = C.create_string_buffer(b, len(b))
    return Val(len(b), C.cast(buf, C.c_void_p)), buf


def _b(v):
    return C.string_at(v.data, v.size) if v.size else b""


MDB_FIRST, MDB_GET_CURRENT, MDB_LAST, MDB_NEXT, MDB_PREV, MDB_SET_RANGE = 0, 4, 6, 8, 12, 17
MDB_NOTFOUND = -30798
for name in ("mdb_env_create", "mdb_env_open", "mdb_env_set_mapsize", "mdb_txn_begin", "mdb_dbi_open", "mdb_put", "mdb_del",
             "mdb_get", "mdb_cursor_open", "mdb_cursor_get", "mdb_txn_commit"):
    getattr(LIB, name).restype = C.c_int
LIB.mdb_txn_abort.restype = None
LIB.mdb_cursor_close.restype = None
LIB.mdb_env_close.restype = None


class RealCursor:
    def __init__(self, txn):
        self.txn = txn
        self.c = C.c_void_p()
        assert LIB.mdb_cursor_open(txn.t, txn.dbi, C.byref(self.c)) == 0
        self.positioned = False

    def _get(self, op, key=b""):
        k, kb = _v(key)
        d = Val()
        rc = LIB.mdb_cursor_get(self.c, C.byref(k), C.byref(d), op)
        if rc == MDB_NOTFOUND or rc == 22:   # EINVAL: MDB_GET_CURRENT with nothing under the cursor
            return None
        assert rc == 0, rc
        return _b(k)

    def set_range(self, key):
        got = self._get(MDB_SET_RANGE, key)
        self.positioned = got is not None
        return got is not None

    def prev(self):
        got = self._get(MDB_PREV)
        self.positioned = got is not None
        return got is not None

    def key(self):
        if not self.positioned:
            return b""            # py-lmdb clears its cached key when a positioning call fails
        got = self._get(MDB_GET_CURRENT)
        return got if got is not None else b""

    def iternext(self):
        out = []
        if not self.positioned:
            got = self._get(MDB_FIRST)
        else:
            got = self._get(MDB_GET_CURRENT)
        while got is not None:
            out.append(got)
            got = self._get(MDB_NEXT)
        self.positioned = False
        return out

    def close(self):
        LIB.mdb_cursor_close(self.c)


class RealTxn:
    def __init__(self, env, write):
        self.t = C.c_void_p()
        assert LIB.mdb_txn_begin(env.e, None, 0 if write else 0x20000, C.byref(self.t)) == 0
        self.dbi = C.c_uint()
        assert LIB.mdb_dbi_open(self.t, None, 0, C.byref(self.dbi)) == 0

    def put(self, k, v):
        kk, kb = _v(k)
        vv, vb = _v(v)
        assert LIB.mdb_put(self.t, self.dbi, C.byref(kk), C.byref(vv), 0) == 0

    def delete(self, k):
        kk, kb = _v(k)
        rc = LIB.mdb_del(self.t, self.dbi, C.byref(kk), None)
        assert rc in (0, MDB_NOTFOUND)
        return rc == 0

    def get(self, k):
        kk, kb = _v(k)
        d = Val()
        rc = LIB.mdb_get(self.t, self.dbi, C.byref(kk), C.byref(d))
        return None if rc == MDB_NOTFOUND else _b(d)

    def commit(self):
        assert LIB.mdb_txn_commit(self.t) == 0

    def abort(self):
        LIB.mdb_txn_abort(self.t)


class RealEnv:
    def __init__(self, path):
        self.e = C.c_void_p()
        assert LIB.mdb_env_create(C.byref(self.e)) == 0
        LIB.mdb_env_set_mapsize(self.e, C.c_size_t(1 << 24))
        assert LIB.mdb_env_open(self.e, path.encode(), 0, 0o644) == 0

    def close(self):
        LIB.mdb_env_close(self.e)


HIST = []


def keyspace(rng):
    # keys shaped like the relay's: short prefixes, shared prefixes, different lengths
    base = [b"\x00a", b"\x00b", b"\x02\x00\x01", b"\x02\x00\x01\x00", b"\x02\x00\x02", b"\x09e\x00a", b"\x09e\x00ab", b"\x09e\x00a\x00",
            b"\xee", b"\x01", b"\x09", b"\x02\x00\x01\xff"]
    return base + [bytes([rng.randrange(0, 12), rng.randrange(0, 3)]) for _ in range(6)]


def one_round(rng, path):
    real = RealEnv(path)
    mod = model.open()
    keys = keyspace(rng)
    checks = 0
    for _ in range(rng.randrange(3, 9)):            # transactions
        write = rng.random() < 0.8
        rt = RealTxn(real, write)
        mt = mod.begin(write=write)
        rc = mc = None
        for _ in range(rng.randrange(1, 25)):
            op = rng.choice(["put", "del", "get", "cursor", "set_range", "prev", "prev", "key", "iternext"] if write else
                            ["get", "cursor", "set_range", "prev", "key", "iternext"])
            k = rng.choice(keys)
            HIST.append((op, k, None if mc is None else mc.pos, list(mt.keys)))
            if op == "put":
                rt.put(k, b"v")
                mt.put(k, b"v")
            elif op == "del":
                # favour deleting the key under the cursor
                if mc is not None and rng.random() < 0.5 and mc.key():
                    k = mc.key()
                a, b = rt.delete(k), mt.delete(k)
                assert a == b, ("delete", k, a, b)
            elif op == "get":
                a, b = rt.get(k), mt.get(k)
                assert (a is None) == (b is None), ("get", k, a, b)
            elif op == "cursor":
                if rc is not None:
                    rc.close()
                    mc.close()
                rc, mc = RealCursor(rt), mt.cursor()
            elif rc is not None:
                if op == "set_range":
                    a, b = rc.set_range(k), mc.set_range(k)
                elif op == "prev":
                    a, b = rc.prev(), mc.prev()
                elif op == "key":
                    a, b = rc.key(), bytes(mc.key())
                else:
                    a, b = rc.iternext(), [bytes(x) for x in mc.iternext(values=False)]
                assert a == b, (op, k, a, b)
                if op == "iternext":
                    # kv.py closes the cursor after an iternext() walk (garbage collector): positions after
                    # exhaustion are not relied upon and not modelled
                    rc.close()
                    mc.close()
                    rc = mc = None
                    checks += 1
                    continue
                checks += 1
                if op in ("set_range", "prev") and a:
                    ka, kb = rc.key(), bytes(mc.key())
                    assert ka == kb, ("key after " + op, ka, kb)
        if rc is not None:
            rc.close()
        if write and rng.random() < 0.8:
            rt.commit()
            mt.commit()
        else:
            rt.abort()
    # final contents
    rt = RealTxn(real, False)
    c = RealCursor(rt)
    final = c.iternext()
    c.close()
    rt.abort()
    assert final == [bytes(k) for k in mod.keys], ("final", final, mod.keys)
    real.close()
    return checks


def main():
    rounds = int(sys.argv[1]) if len(sys.argv) > 1 else 300
    seed = int(sys.argv[2]) if len(sys.argv) > 2 else 1
    rng = random.Random(seed)
    total = 0
    for r in range(rounds):
        d = tempfile.mkdtemp(prefix="lmdbx")
        try:
            HIST.clear()
            total += one_round(rng, d)
        except AssertionError:
            for h in HIST[-8:]:
                print(h[0], h[1], "pos=", h[2], [x.hex() for x in h[3]])
            raise
        finally:
            shutil.rmtree(d, ignore_errors=True)
    print("lmdb model == liblmdb on %d rounds, %d cursor observations compared" % (rounds, total))


if __name__ == "__main__":
    main()
