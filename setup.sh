#!/bin/sh
# Build the overlay venv the checks run in: /venv's site-packages + /repo (through a .pth
# file) + crosshair-tool/z3 from the offline wheelhouse.  Idempotent; offline.
set -e
cd "$(dirname "$0")"
V=.venv
if [ ! -x "$V/bin/python" ] || ! "$V/bin/python" -c "import crosshair, z3, nostr_relay" >/dev/null 2>&1; then
  rm -rf "$V"
  /venv/bin/python -m venv "$V"
  SP=$("$V/bin/python" -c "import sysconfig; print(sysconfig.get_paths()['purelib'])")
  printf "import site; site.addsitedir('/venv/lib/python3.12/site-packages')\n/repo\n" > "$SP/vk_overlay.pth"
  PIP_NO_INDEX=1 "$V/bin/pip" install -q --no-index --find-links /opt/veriftools/wheels crosshair-tool >/dev/null
  "$V/bin/python" -c "import crosshair, z3, nostr_relay"
fi
echo "venv ok: $($V/bin/python -c 'import crosshair,z3;print(crosshair.__version__, z3.get_version_string())')"
