"""Contract model of the py-lmdb subset that nostr_relay.storage.kv uses (DESIGN §3.1).

An Environment is a sorted list of (key, value) pairs.  A transaction works on a private
copy (snapshot isolation); a write transaction publishes its copy on clean exit and drops it
when the `with` block is left by an exception (py-lmdb: Transaction.__exit__ aborts on
exception, commits otherwise).  Keys compare byte-wise (bytes `<` in Python == memcmp order
followed by length, which is LMDB's default comparator).

Cursor semantics follow liblmdb:
  set_range(k)  -> position at first key >= k; False (and unpositioned) when there is none
  prev()        -> MDB_PREV: previous key; on an *unpositioned* cursor MDB_PREV behaves as
                   MDB_LAST; False when already at the first key (cursor becomes unpositioned)
  key()         -> current key, b"" when unpositioned
  iternext()    -> keys from the current position to the end (from the first key when
                   unpositioned)

Cursors stay valid across mutations made through the same transaction, as LMDB's cursor tracking
guarantees: a cursor keeps pointing at *its key* when other keys are inserted/deleted before it; when
the key under a cursor is deleted the cursor refers to the successor position, so that prev() yields
the predecessor of the deleted key (mdb_cursor_prev clears C_DEL and steps back from that index).

Fault injection (C07/C10): Environment.fail_at = k makes the k-th mutation (put/delete,
counted from 1 over the life of the environment) raise lmdb.Error.
All loops are written so that they stay symbolic under CrossHair (no hashing of keys).
"""


class Error(Exception):
    pass


class Cursor:
    def __init__(self, txn):
        self.txn = txn
        self.pos = None  # None = unpositioned
        self.at_front = False
        txn.cursors.append(self)

    def set_range(self, k):
        keys = self.txn.keys
        i = 0
        n = len(keys)
        while i < n and keys[i] < k:
            i += 1
        self.at_front = False
        if i < n:
            self.pos = i
            return True
        self.pos = None
        return False

    def prev(self):
        keys = self.txn.keys
        if self.pos is not None and self.pos > len(keys):
            self.pos = len(keys)
        if self.pos is None:
            if not keys:
                return False
            self.pos = len(keys) - 1
            return True
        if self.pos == 0:
            # MDB_PREV at the first key fails and leaves the C cursor where it is; py-lmdb then reports an empty key
            self.at_front = True
            return False
        self.pos -= 1
        self.at_front = False
        return True

    def key(self):
        if self.pos is None or self.pos >= len(self.txn.keys) or self.at_front:
            return b""
        return self.txn.keys[self.pos]

    def iternext(self, keys=True, values=True):
        i = self.pos
        ks = self.txn.keys
        if i is None or self.at_front:
            i = 0
        while i < len(ks):
            if keys and values:
                yield ks[i], self.txn.vals[i]
            elif keys:
                yield ks[i]
            else:
                yield self.txn.vals[i]
            i += 1

    def close(self):
        if self in self.txn.cursors:
            self.txn.cursors.remove(self)

    def __enter__(self):
        return self

    def __exit__(self, *a):
        self.close()


class Txn:
    def __init__(self, env, write):
        self.env = env
        self.write = write
        self.keys = list(env.keys)
        self.vals = list(env.vals)
        self.cursors = []

    def _find(self, k):
        i = 0
        for kk in self.keys:
            if kk == k:
                return i
            i += 1
        return -1

    def _mutation(self):
        if not self.write:
            raise Error("mutation in read-only transaction")
        env = self.env
        env.mutations += 1
        if env.fail_at is not None and env.mutations == env.fail_at:
            raise Error("injected fault at mutation %d" % env.fail_at)

    def cursor(self):
        return Cursor(self)

    def get(self, k, default=None):
        i = self._find(k)
        return default if i < 0 else self.vals[i]

    def put(self, k, v, **kw):
        self._mutation()
        i = self._find(k)
        if i >= 0:
            self.vals[i] = v
            return True
        j = 0
        while j < len(self.keys) and self.keys[j] < k:
            j += 1
        self.keys.insert(j, k)
        self.vals.insert(j, v)
        for c in self.cursors:
            if c.pos is not None and c.pos >= j:
                c.pos += 1
        return True

    def delete(self, k, value=b""):
        self._mutation()
        i = self._find(k)
        if i < 0:
            return False
        del self.keys[i]
        del self.vals[i]
        for c in self.cursors:
            if c.pos is not None and c.pos > i:
                c.pos -= 1
        return True

    def commit(self):
        if self.write:
            self.env.keys = self.keys
            self.env.vals = self.vals
            self.env.commits += 1

    def abort(self):
        pass

    def __enter__(self):
        return self

    def __exit__(self, et, e, tb):
        if et is None:
            self.commit()
        return False


class Environment:
    def __init__(self, **kw):
        self.keys = []
        self.vals = []
        self.mutations = 0
        self.commits = 0
        self.fail_at = None
        self.options = kw

    def begin(self, write=False, buffers=False, **kw):
        return Txn(self, write)

    def stat(self):
        return {"entries": len(self.keys)}

    def close(self):
        pass

    def __enter__(self):
        return self

    def __exit__(self, *a):
        pass


def open(*a, **kw):
    return Environment(**kw)
