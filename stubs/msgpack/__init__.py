"""Contract stub of msgpack for symbolic runs (DESIGN §3.2): unpackb(packb(x)) == x with
lists turned into tuples (use_list=False); unpackb(None) raises TypeError as the C/py
implementations do.  Range limits of the real format (ints beyond 64 bits) are NOT modelled
here; obligations that depend on them state so."""


class Packed:
    __slots__ = ("o",)

    def __init__(self, o):
        self.o = o

    def __bool__(self):
        return True

    def __eq__(self, other):
        return isinstance(other, Packed) and _tup(self.o) == _tup(other.o)

    def __repr__(self):
        return "Packed(%r)" % (self.o,)


def _tup(o):
    if isinstance(o, (list, tuple)):
        return tuple(_tup(i) for i in o)
    return o


def packb(o, use_bin_type=True, **kw):
    return Packed(o)


def unpackb(p, use_list=True, **kw):
    if p is None:
        raise TypeError("a bytes-like object is required, not 'NoneType'")
    if use_list:
        return _lst(p.o)
    return _tup(p.o)


def _lst(o):
    if isinstance(o, (list, tuple)):
        return [_lst(i) for i in o]
    return o
