"""C17 (LMDB) – a garbage-collection pass at time T removes ephemeral-kind and expired events with all their
index entries, and nothing else; ephemeral events are broadcast but never stored.

Real code executed: storage.kv.KVGarbageCollector.collect, LMDBStorage.delete_event, WriterThread.run ("del"
tasks), LMDBStorage.add_event (ephemeral branch), util.Periodic._run (exception swallowing).
"""
import logging
from typing import List

from nostr_relay.storage import kv
from nostr_relay.storage import base as B

from envmodel import kvworld as W
from envmodel.fake_asyncio import Loop
from harness import _webcommon as C
from vk.ob import obligation, pick, PARAM, THOROUGH

NOW = (1700000000, 1000, 999, 2000000000)     # T: incl. a power of ten and the value just below it
T = NOW[PARAM % 4]
#            none   T-1          T        T+1          far future     malformed  empty  tiny (fewer digits than T)
EXP = (None, str(T - 1), str(T), str(T + 1), "9999999999", "soon", "", "5")
KINDS = (1, 19999, 30000, 0)


def _drive(coro):
    try:
        coro.send(None)
    except StopIteration as e:
        return e.value
    raise RuntimeError("suspended")


@obligation(funcs=["storage.kv.KVGarbageCollector.collect", "storage.kv.LMDBStorage.delete_event", "storage.kv.WriterThread.run"],
            params=range(4), timeout=(450, 1500),
            bounds="store of 2 events with kind from {1,19999,30000,0}, created_at symbolic 1..200 and an expiration tag by symbolic "
                   "selector from {none, T-1, T, T+1, far future, malformed, empty, value with fewer digits than T}; T by PARAM from "
                   "{1700000000, 1000, 999, 2000000000}; quick tier: second event regular kind, first event without tag, with T-1 or with T+1")
def ob_gc_pass(k0: int, t0: int, x0: int, k1: int, t1: int, x1: int) -> str:
    """
    pre: 0 <= k0 < 4 and 0 <= k1 < 4 and 1 <= t0 <= 200 and 1 <= t1 <= 200 and 0 <= x0 < 8 and 0 <= x1 < 8
    pre: k1 == 0 and (THOROUGH or x0 in (0, 1, 3))
    post: _.startswith("ok")
    """
    logging.disable(logging.CRITICAL)
    evs = []
    for (i, k, t, x) in ((0, k0, t0, x0), (1, k1, t1, x1)):
        val = pick(EXP, x)
        tags = [["e", "x"]] + ([["expiration", val]] if val is not None else [])
        evs.append((W.make_event(i, 0, pick(KINDS, k), t, tags), val))
    env = W.new_env()
    W.run_writer(env, [("add", [e]) for (e, v) in evs])
    before = W.ids_of(env)
    loop = Loop()
    C.install(loop)
    store = C.Store(loop)
    store.db = env
    kv.time = lambda: T
    gc = kv.KVGarbageCollector(store)
    with env.begin() as txn:
        n = _drive(gc.collect(txn))
    W.run_writer(env, store.queued())
    after = W.ids_of(env)
    err = W.coherence_error(env)
    if err:
        return err
    for (e, val) in evs:
        if e.id not in before:
            continue
        expired = val is not None and val.isdigit() and int(val) < T
        gone = e.id not in after
        if expired and not gone:
            return "event with expiration %r survived a pass at T=%d" % (val, T)
        if gone and not expired:
            return "pass at T=%d removed an event with expiration %r (kind %d)" % (T, val, e.kind)
    return "ok" if len(after) < len(before) else "ok-nothing-collected"


@obligation(funcs=["storage.kv.LMDBStorage.add_event"], timeout=(60, 300),
            bounds="one event with kind symbolic around the ephemeral range boundaries: broadcast always, queued for storage iff "
                   "not 20000 <= kind < 30000")
def ob_ephemeral_not_stored(kind: int) -> str:
    """
    pre: 19990 <= kind <= 30010
    post: _.startswith("ok")
    """
    logging.disable(logging.CRITICAL)
    loop = Loop()
    C.install(loop)
    store = C.Store(loop)
    store.db = W.new_env()
    sent = []

    async def notify_all(event):
        sent.append(event.id)

    store.notify_all_connected = notify_all
    evj = dict(C.VALID_EVENT, kind=kind)
    ev, changed = _drive(store.add_event(evj, auth_token={}))
    queued = store.queued()
    eph = 20000 <= kind < 30000
    if len(sent) != 1:
        return "event broadcast %d times" % len(sent)
    if eph and queued:
        return "ephemeral kind %d queued for storage" % kind
    if not eph and len(queued) != 1:
        return "kind %d not queued for storage" % kind
    return "ok" if eph else "ok-regular"


@obligation(funcs=["util.Periodic._run", "storage.base.BaseGarbageCollector.run_once"], timeout=(60, 300),
            bounds="periodic driver with collect() raising on a symbolic subset of 3 rounds: every round is still attempted")
def ob_driver_survives(f0: bool, f1: bool, f2: bool) -> str:
    """
    post: _.startswith("ok")
    """
    logging.disable(logging.CRITICAL)
    import nostr_relay.util as U
    loop = Loop()
    ns = loop.namespace()
    U.asyncio = ns
    B.asyncio = ns
    rounds = []
    fails = [f0, f1, f2]

    class DB:
        def begin(self):
            return self

        def __enter__(self):
            return "conn"

        def __exit__(self, *a):
            return False

    class GC(B.BaseGarbageCollector):
        async def collect(self, conn):
            i = len(rounds)
            rounds.append(i)
            if i >= 2:
                self.running = False
            if fails[i]:
                raise RuntimeError("engine error")
            return 1

    import types
    gc = GC(types.SimpleNamespace(db=DB()), collect_interval=1, async_transaction=False)
    gc.running = True
    try:
        loop.run(gc._run())
    except Exception as e:
        return "driver died after %d rounds: %r" % (len(rounds), e)
    if rounds != [0, 1, 2]:
        return "rounds attempted: %r" % (rounds,)
    return "ok" if (f0 or f1 or f2) else "ok-nofault"


@obligation(funcs=["storage.db.QueryGarbageCollector.collect", "storage.db.DBStorage.add_event", "storage.db.DBStorage.process_tags"],
            params=range(4), timeout=(450, 1500),
            bounds="SQL backend on the engine model: store of 2 events (kind from {1,19999,20000,29999,30000}, expiration tag by "
                   "selector from {none, T-1, T, T+1, far future, malformed, empty, fewer digits, digit-prefixed text}); one "
                   "collector pass at T (PARAM): exactly the ephemeral kinds and the well-formed expired timestamps are removed, "
                   "with their tag rows")
def ob_sql_gc_pass(k0: int, x0: int, k1: int, x1: int) -> str:
    """
    pre: 0 <= k0 < 5 and 0 <= k1 < 5 and 0 <= x0 < 9 and 0 <= x1 < 9
    pre: (THOROUGH and k1 < 2 and x1 in (0, 1, 3, 7, 8)) or (k1 == 0 and x0 in (0, 1, 3))
    post: _.startswith("ok")
    """
    logging.disable(logging.CRITICAL)
    from harness import _sqlstore as S
    from nostr_relay.storage import db as D
    st = S.make_store()
    evs = []
    exp = EXP + ("2031-01-01",)
    for (i, k, x) in ((0, k0, x0), (1, k1, x1)):
        val = pick(exp, x)
        kind = pick((1, 19999, 20000, 29999, 30000), k)
        tags = [["e", "x"]] + ([["expiration", val]] if val is not None else [])
        ev = S.evj(i, i == 1, kind, 10 + i, tags)   # different authors: the second event must not supersede the first
        S.drive(st.add_event(dict(ev)))
        evs.append((ev, val, kind))
    D.time = lambda: T
    gc = D.QueryGarbageCollector(st)
    conn_ctx = st.db.begin()
    conn = S.drive(conn_ctx.__aenter__())
    S.drive(gc.collect(conn))
    S.drive(conn_ctx.__aexit__(None, None, None))
    after = [r["id"] for r in S.rows(st)]
    err = S.tags_coherent(st)
    if err:
        return err
    removed = 0
    for (ev, val, kind) in evs:
        expired = val is not None and val.isdigit() and int(val) < T
        eph = 20000 <= kind < 30000
        gone = ev["id"] not in after
        removed += gone
        if (expired or eph) and not gone:
            return "kind %d expiration %r survived a pass at T=%d" % (kind, val, T)
        if gone and not (expired or eph):
            return "pass at T=%d removed kind %d with expiration %r" % (T, kind, val)
    return "ok" if removed else "ok-nothing-collected"


@obligation(funcs=["storage.db.QueryGarbageCollector.collect", "storage.db.DBStorage.add_event"],
            params=range(4), timeout=(450, 1500),
            bounds="SQL backend on the engine model, ONE collector instance (as the periodic task keeps it): event 0 stored, a pass at "
                   "T-2, event 1 stored, a pass at T (PARAM); kind 1, expiration tags by selector (event 0: none, T-1, T+1, far "
                   "future; event 1: all 9 values incl. malformed): after the second pass exactly the well-formed timestamps < T "
                   "are gone, with their tag rows – whatever the first pass saw")
def ob_sql_gc_two_passes(x0: int, x1: int) -> str:
    """
    pre: x0 in (0, 1, 3, 4) and 0 <= x1 < 9
    post: _.startswith("ok")
    """
    logging.disable(logging.CRITICAL)
    from harness import _sqlstore as S
    from nostr_relay.storage import db as D
    st = S.make_store()
    exp = EXP + ("2031-01-01",)
    gc = D.QueryGarbageCollector(st)
    evs = []

    def _pass(now):
        D.time = lambda: now
        conn_ctx = st.db.begin()
        conn = S.drive(conn_ctx.__aenter__())
        S.drive(gc.collect(conn))
        S.drive(conn_ctx.__aexit__(None, None, None))

    for (i, x) in ((0, x0), (1, x1)):
        val = pick(exp, x)
        tags = [["e", "x"]] + ([["expiration", val]] if val is not None else [])
        ev = S.evj(i, i == 1, 1, 10 + i, tags)
        D.time = lambda: T - 3
        S.drive(st.add_event(dict(ev)))
        evs.append((ev, val))
        _pass(T - 2 if i == 0 else T)
    after = [r["id"] for r in S.rows(st)]
    err = S.tags_coherent(st)
    if err:
        return err
    removed = 0
    for (ev, val) in evs:
        expired = val is not None and val.isdigit() and int(val) < T
        gone = ev["id"] not in after
        removed += gone
        if expired and not gone:
            return "expiration %r survived the second pass at T=%d (first pass at T-2 saw %r)" % (val, T, evs[0][1])
        if gone and not expired:
            return "the passes at T-2 and T=%d removed an event with expiration %r" % (T, val)
    return "ok" if removed else "ok-nothing-collected"

