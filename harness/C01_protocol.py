"""C01 (protocol level) – every stored EVENT frame sent under a subscription id matches a filter given for that id, also
when a REQ re-uses the id while the first stored query is still running (frames buffered back to back).  Same obligation
body as C13's ob_sequence (which also checks EOSE/NOTICE counts and live delivery); re-run here so that the C01 check stands
on its own."""
from typing import List

from harness import C13_protocol
from vk.ob import obligation

NM = C13_protocol.NM


@obligation(funcs=["web.start_client", "storage.base.BaseStorage.subscribe", "storage.base.BaseStorage.unsubscribe",
                   "storage.base.BaseSubscription.cancel"],
            timeout=(450, 1800), params=(2, 3), bounds=C13_protocol.ob_sequence._vk["bounds"])
def ob_frames_match_current_filter(ms: List[int], limit: int) -> str:
    """
    pre: len(ms) <= NM and all(0 <= m < 10 for m in ms) and 1 <= limit <= 2
    post: _.startswith("ok")
    """
    return C13_protocol.sequence_body(ms, limit)
