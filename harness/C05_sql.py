"""C05 (SQL backend) – live matching (BaseSubscription.check_event) agrees with the WHERE clause the SQL backend
generates for the same filter (real build_query on holes -> sqlmini; tag rows from the real process_tags).
Excused as the property says: ephemeral kinds, created_at equal to a since/until bound."""
import logging
from typing import Optional

from aionostr.event import Event
from nostr_relay.storage import base as B
from nostr_relay.storage.base import NostrQuery

from envmodel import sqlmini
from harness import _sqlcommon as S
from vk.ob import obligation, pick, PARAM

HEX = ("00" * 32, "ab" * 32, "ff" * 32)
NAMES = ("e", "p")
VALS = ("a", "b", "")
SHAPE = PARAM % 6


@obligation(funcs=["storage.base.BaseSubscription.check_event", "storage.db.Subscription.build_query",
                   "storage.db.DBStorage.process_tags"],
            params=range(6), timeout=(450, 1500),
            bounds="PARAM = filter shape: 0 ids, 1 authors (+ optional delegation tag naming one of 3 keys), 2 kinds, 3 since/until "
                   "(incl. 0), 4 one tag condition (values incl. '', bare tags), 5 kinds+until+tag; ints symbolic, strings by "
                   "selector; event: symbolic kind/created_at, one tag of 1-2 items")
def ob_live_vs_sql(idsel: int, pksel: int, kind: int, ts: int, tn: int, tv: int, bare: bool, deleg: int,
                   h1: int, k1: int, since: Optional[int], until: Optional[int], n1: int, v1: int) -> str:
    """
    pre: 0 <= idsel < 3 and 0 <= pksel < 3 and 0 <= kind < 70000 and 1 <= ts < 4294967296
    pre: 0 <= tn < 2 and 0 <= tv < 3 and 0 <= deleg < 3 and 0 <= h1 < 3 and 0 <= k1 < 70000
    pre: since is None or 0 <= since < 2145934800
    pre: until is None or 0 <= until < 2145934800
    pre: 0 <= n1 < 2 and 0 <= v1 < 3
    pre: SHAPE == 0 or idsel == 0
    pre: SHAPE == 1 or (pksel == 0 and deleg == 0)
    pre: SHAPE in (0, 1) or h1 == 0
    pre: SHAPE in (2, 5) or k1 == 0
    pre: SHAPE in (3, 5) or (since is None and until is None)
    pre: SHAPE != 5 or since is None
    pre: SHAPE in (4, 5) or (tn == 0 and tv == 0 and not bare and n1 == 0 and v1 == 0)
    post: _.startswith("ok")
    """
    logging.disable(logging.CRITICAL)
    tags = [[pick(NAMES, tn)] + ([] if bare else [pick(VALS, tv)])]
    if deleg:
        tags.append(["delegation", pick(HEX, deleg), "c", "s"])
    f = dict(ids=None, authors=None, kinds=None, since=since, until=until, tags=None)
    if SHAPE == 0:
        f["ids"] = [pick(HEX, h1)]
    if SHAPE == 1:
        f["authors"] = [pick(HEX, h1)]
    if SHAPE in (2, 5):
        f["kinds"] = [k1]
    if SHAPE in (4, 5):
        f["tags"] = [(pick(NAMES, n1), [pick(VALS, v1)])]
    if SHAPE == 3 and since is None and until is None:
        return "ok-noshape"
    try:
        stmt, env, text = S.template([f])
    except sqlmini.Unsupported as ex:
        return "harness-error: generated SQL is outside the modelled grammar (%s)" % ex
    ev = Event(id=pick(HEX, idsel), pubkey=pick(HEX, pksel), kind=kind, created_at=ts, tags=tags, content="", sig="00" * 64)
    row = dict(id=bytes.fromhex(ev.id), pubkey=bytes.fromhex(ev.pubkey), kind=kind, created_at=ts, tags=S.tag_rows(ev))
    stored = bool(sqlmini.evaluate(stmt["where"], row, env))
    q = NostrQuery.model_construct(ids=f["ids"], authors=f["authors"], kinds=f["kinds"], since=since, until=until, limit=10,
                                   search=None, tags=[(n, set(v)) for (n, v) in f["tags"]] if f["tags"] else None)
    sub = B.BaseSubscription.__new__(B.BaseSubscription)
    live = bool(sub.check_event(ev, [q]))
    if live == stored:
        return "ok" if live else "ok-nomatch"
    if 20000 <= kind < 30000:
        return "ok-ephemeral"
    if (since is not None and ts == since) or (until is not None and ts == until):
        return "ok-bound"
    return "live=%r stored=%r for filter %r event tags %r kind %d created_at %d" % (live, stored, f, tags, kind, ts)
