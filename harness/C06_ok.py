"""C06 – OK acknowledgements agree with what the relay did.

ob_event_ok: real web.start_client EVENT branch on the loop model with storage.add_event answering by
             symbolic choice {stored, duplicate, StorageError, AuthenticationError, other exception},
             symbolic throttle and rate-limiter verdict: exactly one OK frame per EVENT message, flag true
             only when the storage reported a change, the event id echoed.
ob_kv_ack:   real LMDBStorage.add_event followed by the real writer on the lmdb model for events over the
             whole range admission lets through (32/64-bit boundary timestamps and kinds, tag shapes by
             selector): OK true  =>  retrievable afterwards (or ephemeral / superseded); a refusal leaves no
             trace and no broadcast; a duplicate changes nothing and is not broadcast again.
"""
import logging
from typing import List

from aionostr.event import Event
from nostr_relay.errors import AuthenticationError, StorageError

from envmodel import kvworld as W
from envmodel.fake_asyncio import Loop
from harness import _webcommon as C
from harness import _kvcommon as K
from refs import effects
from vk.ob import obligation, pick, PARAM


@obligation(funcs=["web.start_client"], timeout=(120, 600),
            bounds="one EVENT message (valid object / non-object payloads by selector) + disconnect; add_event outcome by "
                   "symbolic selector from 5; throttle in {0, 2}; rate limiter refusing or not; authentication enabled or not")
def ob_event_ok(outcome: int, throttled: bool, limited: bool, payload: int, auth_on: bool) -> str:
    """
    pre: 0 <= outcome < 5 and 0 <= payload < 4
    post: _.startswith("ok")
    """
    logging.disable(logging.CRITICAL)
    loop = Loop()
    C.install(loop)
    store = C.Store(loop, auth=C.StubAuth(enabled=auth_on, throttle=2 if throttled else 0))
    calls = []
    ev = Event(**C.VALID_EVENT)

    async def add_event(event_json, auth_token=None):
        calls.append(event_json)
        if outcome == 0:
            return ev, True
        if outcome == 1:
            return ev, False
        if outcome == 2:
            raise StorageError("invalid: nope")
        if outcome == 3:
            raise AuthenticationError("restricted: permission denied")
        raise ValueError("engine exploded")

    store.add_event = add_event
    body = pick((dict(C.VALID_EVENT), {"id": C.ID1}, "text", ["x"]), payload)
    conn = C.Conn(loop, [["EVENT", body]])
    lim = C.Limiter(limited_at=(0,) if limited else ())
    loop.run(C.run_client(loop, store, conn, limiter=lim))
    frames = [f for f in conn.frames() if not (isinstance(f, list) and f and f[0] == "AUTH")]
    if limited:
        if payload >= 2:
            # message[1]["id"] on a non-object: the handler closes the connection (allowed by C19)
            if conn.closed or (len(frames) == 1 and frames[0][0] == "OK" and frames[0][2] is False):
                return "ok-closed"
            return "rate-limited malformed EVENT: frames %r closed %r" % (frames, conn.closed)
        if calls:
            return "rate-limited EVENT still reached the storage"
        if len(frames) != 1 or frames[0][0] != "OK" or frames[0][2] is not False:
            return "rate-limited EVENT answered with %r" % (frames,)
        return "ok"
    if len(frames) != 1:
        return "EVENT answered with %d frames: %r" % (len(frames), frames)
    f = frames[0]
    if not (isinstance(f, list) and len(f) == 4 and f[0] == "OK" and isinstance(f[2], bool) and isinstance(f[3], str)):
        return "not an OK frame: %r" % (f,)
    if f[2] != (outcome == 0):
        return "OK flag %r for storage outcome %d" % (f[2], outcome)
    if outcome in (0, 1) and f[1] != C.ID1:
        return "OK names event %r" % (f[1],)
    if outcome == 1 and not f[3].startswith("duplicate"):
        return "duplicate reported as %r" % (f[3],)
    if outcome >= 2 and not f[3]:
        return "refusal without a reason"
    return "ok"


class _RacingEnv:
    """the writer thread gets to run right after a read transaction has taken its snapshot"""

    def __init__(self, env, store):
        self.env, self.store = env, store

    def begin(self, **kw):
        txn = self.env.begin(**kw)
        if not kw.get("write"):
            self.store.run_writer(self.env)
        return txn


def _drive(coro):
    try:
        coro.send(None)
    except StopIteration as e:
        return e.value
    raise RuntimeError("suspended")


TS = (1, 1700000000, 4294967295, 4294967296, 18446744073709551616, -1)
KNDS = (1, 0, 5, 20000, 30000, 65535, 4294967296, -1)


@obligation(funcs=["storage.kv.LMDBStorage.add_event", "storage.kv.WriterThread.run", "storage.kv.encode_event",
                   "storage.kv.Index.write"],
            timeout=(450, 1500), params=range(4),
            bounds="PARAM 3: second submission while the first is queued and the writer thread commits it exactly after the duplicate lookup opened its read transaction; PARAM 2: the same event submitted twice BEFORE the writer thread ran; PARAM 0: fresh event with created_at from {1, 1.7e9, 2^32-1, 2^32, 2^64, -1}, kind from {1,0,5,20000,30000,"
                   "65535,2^32,-1}, <=1 tag from the 10 general shapes, by symbolic selectors (the validator stub accepts: these "
                   "values pass is_signed); PARAM 1: the same event submitted twice")
def ob_kv_ack(tsel: int, ksel: int, g: List[int], can: bool) -> str:
    """
    pre: 0 <= tsel < 6 and 0 <= ksel < 8 and len(g) <= 1 and all(0 <= i < len(K.GEN) for i in g)
    pre: PARAM == 0 or (tsel < 2 and ksel < 3)
    post: _.startswith("ok")
    """
    logging.disable(logging.CRITICAL)
    loop = Loop()
    C.install(loop)
    store = C.Store(loop, auth=C.StubAuth(can=can))
    broadcasts = []

    async def notify_all(event):
        broadcasts.append(event.id)

    store.notify_all_connected = notify_all
    evj = dict(id=W.IDS[0], pubkey=W.PKS[0], created_at=pick(TS, tsel), kind=pick(KNDS, ksel), tags=K._tags(K.GEN, g),
               content="c", sig=W.SIG)
    env = W.new_env()
    store.db = env
    rounds = 2 if PARAM in (1, 2, 3) else 1
    if PARAM == 3:
        store.db = _RacingEnv(env, store)
    acks = []
    for r in range(rounds):
        try:
            ev, changed = _drive(store.add_event(dict(evj), auth_token={}))
            acks.append(bool(changed))
        except (StorageError, AuthenticationError):
            acks.append(None)
        if PARAM not in (2, 3):
            store.run_writer(env)
    store.run_writer(env)
    row = dict(evj)
    stored = W.ids_of(env)
    err = W.coherence_error(env)
    if err:
        return err
    if acks[0] is None:
        if stored or broadcasts:
            return "refused event left a trace: stored=%r broadcast=%r" % (stored, broadcasts)
        return "ok-refused" if not can else "ok-refused-unstorable"
    if not can:
        return "accepted without the save permission"
    if acks[0] and not effects.is_ephemeral(row) and evj["id"] not in stored:
        return "OK true but the event is not retrievable after the writer went idle (created_at=%r kind=%r tags=%r)" % (
            evj["created_at"], evj["kind"], evj["tags"])
    if effects.is_ephemeral(row) and stored:
        return "ephemeral event stored"
    if PARAM in (1, 2, 3):
        if acks[1]:
            return "resubmission of a stored event acknowledged with OK true"
        if len(broadcasts) != 1:
            return "stored event broadcast %d times over two submissions" % len(broadcasts)
    elif len(broadcasts) != 1:
        return "accepted event broadcast %d times" % len(broadcasts)
    return "ok"
