"""C10 – LMDB index coherence after add / duplicate add / delete / replace / NIP-09 delete histories.

Real code executed: storage.kv.WriterThread.{run, _post_save, _delete_event}, every Index.write/clear/
convert/to_key, encode_event/decode_event/get_event_data, Index.scanner (inside _post_save) on the lmdb
contract model.  Oracle: refs/kvlayout.py (key layout written from the comment in kv.py).
"""
import logging
from typing import List

from envmodel import kvworld as W
from harness import _kvcommon as K
from vk.ob import obligation, PARAM, THOROUGH, real_lru_cache, fresh_module_state

SCN, X = K.CASES[PARAM % len(K.CASES)]


@obligation(funcs=["storage.kv.WriterThread.run", "storage.kv.WriterThread._post_save", "storage.kv.WriterThread._delete_event",
                   "storage.kv.Index.write", "storage.kv.Index.clear", "storage.kv.TagIndex.convert", "storage.kv.encode_event",
                   "storage.kv.decode_event", "storage.kv.Index.scanner"],
            params={"quick": K.QUICK_CASES, "thorough": range(len(K.CASES))}, timeout=(450, 1800),
            bounds="histories add e0; add e1; [final task] in 5 scenarios x variants (PARAM; the quick tier runs 9 of the 20 cases with smaller tag pools): regular events + delete of a stored/unknown "
                   "id; replaceable kinds {0,3,10000,19999} next to regular neighbours; parameterised-replaceable with d tags "
                   "{absent, a, ab, bare, empty, unicode}; kind-5 deletions referencing own/foreign/unknown/bare/upper-case "
                   "ids; duplicate add + ephemeral boundary kinds.  Authors by symbolic bool, created_at symbolic 1..200, "
                   "tags by symbolic selector (bare/empty/NUL/int values, multi-byte and long names)")
def ob_coherent_after_history(p0: bool, t0: int, g0: List[int], p1: bool, t1: int, g1: List[int]) -> str:
    """
    pre: 1 <= t0 <= 200 and 1 <= t1 <= 200
    pre: K.pre_ok(SCN, g0, g1, p0, THOROUGH)
    post: _.startswith("ok")
    """
    logging.disable(logging.CRITICAL)
    real_lru_cache()   # caches in the index code keep their real semantics; cleared per run
    from nostr_relay.storage import kv as _kv
    fresh_module_state(_kv)
    for _ix in _kv.INDEXES.values():
        for _name in ("to_key", "convert"):
            _f = getattr(type(_ix), _name, None)
            if hasattr(_f, "cache_clear"):
                _f.cache_clear()
    env, e0, e1, last, s1, s2, s3 = K.run(SCN, p0, t0, g0, p1, t1, g1, X)
    err = W.coherence_error(env)
    if err:
        return err
    if last is not None and last[0] == "del" and last[1][0] in [r["id"] for r in s3]:
        return "deleted event still has its primary record"
    return "ok"


@obligation(funcs=["storage.kv.Index.write", "storage.kv.Index.clear", "storage.kv.TagIndex.convert", "storage.kv.TagIndex.to_key",
                   "storage.kv.WriterThread._delete_event"],
            timeout=(350, 1200),
            bounds="write/clear symmetry: one event with symbolic kind (0..70000) and created_at (any 32-bit value), <=2 tags "
                   "from the 10 general shapes (second one may duplicate the first), added and then deleted: only the "
                   "tombstone remains")
def ob_write_clear_symmetry(p: bool, kind: int, ts: int, g: List[int], dup: bool) -> str:
    """
    pre: 0 <= kind < 70000 and 1 <= ts < 4294967296
    pre: len(g) <= 2 and all(0 <= i < len(K.GEN) for i in g) and (len(g) < 2 or g[1] < 4)
    pre: not dup or len(g) == 1
    post: _.startswith("ok")
    """
    logging.disable(logging.CRITICAL)
    tags = K._tags(K.GEN, g)
    if dup:
        tags = tags + [list(tags[0])]
    ev = W.make_event(0, 1 if p else 0, kind, ts, tags)
    env = W.new_env()
    W.run_writer(env, [("add", [ev])])
    if not (20000 <= kind < 30000) and W.coherence_error(env):
        return "after add: " + W.coherence_error(env)
    if ev.id not in W.ids_of(env):
        return "event was not stored by the writer"
    W.run_writer(env, [("del", [ev.id])])
    if env.keys != [W.L.TOMBSTONE]:
        return "after delete %d keys remain: %r" % (len(env.keys), [k.hex()[:20] for k in env.keys])
    return "ok"
