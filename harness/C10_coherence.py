"""C10 – LMDB index coherence after add / duplicate add / delete / replace / NIP-09 delete histories.

Real code executed: storage.kv.WriterThread.{run, _post_save, _delete_event}, every Index.write/clear/
convert/to_key, encode_event/decode_event/get_event_data, Index.scanner (inside _post_save) on the lmdb
contract model.  Oracle: refs/kvlayout.py (key layout written from the comment in kv.py).
"""
import logging
from typing import List

from envmodel import kvworld as W
from harness import _kvcommon as K
from vk.ob import obligation, PARAM, THOROUGH, real_lru_cache, fresh_module_state

SCN, X = K.CASES[PARAM % len(K.CASES)]


@obligation(funcs=["storage.kv.WriterThread.run", "storage.kv.WriterThread._post_save", "storage.kv.WriterThread._delete_event",
                   "storage.kv.Index.write", "storage.kv.Index.clear", "storage.kv.TagIndex.convert", "storage.kv.encode_event",
                   "storage.kv.decode_event", "storage.kv.Index.scanner"],
            params={"quick": K.QUICK_CASES, "thorough": range(len(K.CASES))}, timeout=(450, 1800),
            bounds="histories add e0; add e1; [final task] in 5 scenarios x variants (PARAM; the quick tier runs 9 of the 20 cases with smaller tag pools): regular events + delete of a stored/unknown "
                   "id; replaceable kinds {0,3,10000,19999} next to regular neighbours; parameterised-replaceable with d tags "
                   "{absent, a, ab, bare, empty, unicode}; kind-5 deletions referencing own/foreign/unknown/bare/upper-case "
                   "ids; duplicate add + ephemeral boundary kinds.  Authors by symbolic bool, created_at symbolic 1..200, "
                   "tags by symbolic selector (bare/empty/NUL/int values, multi-byte and long names)")
def ob_coherent_after_history(p0: bool, t0: int, g0: List[int], p1: bool, t1: int, g1: List[int]) -> str:
    """
    pre: 1 <= t0 <= 200 and 1 <= t1 <= 200
    pre: K.pre_ok(SCN, g0, g1, p0, THOROUGH)
    post: _.startswith("ok")
    """
    logging.disable(logging.CRITICAL)
    _reset_caches()
    env, e0, e1, last, s1, s2, s3 = K.run(SCN, p0, t0, g0, p1, t1, g1, X)
    err = W.coherence_error(env)
    if err:
        return err
    if last is not None and last[0] == "del" and last[1][0] in [r["id"] for r in s3]:
        return "deleted event still has its primary record"
    return "ok"


@obligation(funcs=["storage.kv.Index.write", "storage.kv.Index.clear", "storage.kv.TagIndex.convert", "storage.kv.TagIndex.to_key",
                   "storage.kv.WriterThread._delete_event"],
            timeout=(350, 1200),
            bounds="write/clear symmetry: one event with symbolic kind (0..70000) and created_at (any 32-bit value), <=2 tags (quick tier: <=1, or one duplicated) "
                   "from the 12 general shapes, added and then deleted: only the "
                   "tombstone remains")
def ob_write_clear_symmetry(p: bool, kind: int, ts: int, g: List[int], dup: bool) -> str:
    """
    pre: 0 <= kind < 70000 and 1 <= ts < 4294967296
    pre: len(g) <= 2 and all(0 <= i < len(K.GEN) for i in g) and (len(g) < 2 or g[1] < 2) and not p
    pre: not dup or len(g) == 1
    pre: THOROUGH or len(g) <= 1
    post: _.startswith("ok")
    """
    logging.disable(logging.CRITICAL)
    tags = K._tags(K.GEN, g)
    if dup:
        tags = tags + [list(tags[0])]
    ev = W.make_event(0, 1 if p else 0, kind, ts, tags)
    env = W.new_env()
    W.run_writer(env, [("add", [ev])])
    if not (20000 <= kind < 30000) and W.coherence_error(env):
        return "after add: " + W.coherence_error(env)
    if ev.id not in W.ids_of(env):
        return "event was not stored by the writer"
    W.run_writer(env, [("del", [ev.id])])
    if env.keys != [W.L.TOMBSTONE]:
        return "after delete %d keys remain: %r" % (len(env.keys), [k.hex()[:20] for k in env.keys])
    return "ok"


NUMVALS = (5, 5.0, True, 1, "5", 1.0, "1")


def _reset_caches():
    real_lru_cache()   # caches in the index code keep their real semantics; cleared per run
    from nostr_relay.storage import kv as _kv
    fresh_module_state(_kv)
    for _ix in _kv.INDEXES.values():
        for _name in ("to_key", "convert"):
            _f = getattr(type(_ix), _name, None)
            if hasattr(_f, "cache_clear") and callable(_f.cache_clear):
                _f.cache_clear()


@obligation(funcs=["storage.kv.TagIndex.convert", "storage.kv.TagIndex.to_key", "storage.kv.WriterThread.run",
                   "storage.kv.WriterThread._delete_event"],
            timeout=(350, 1200),
            bounds="two events whose t tag carries values that are equal across JSON types (5, 5.0, true, 1, '5', 1.0, '1' by "
                   "symbolic selector), created_at symbolic; add e0, add e1, delete e1 (or e0): coherent after every step")
def ob_numeric_tag_values(v0: int, v1: int, t0: int, t1: int, del_first: bool) -> str:
    """
    pre: 0 <= v0 < 7 and 0 <= v1 < 7 and 1 <= t0 <= 200 and 1 <= t1 <= 200
    pre: THOROUGH or (v0 < 5 and v1 < 5 and not del_first)
    post: _.startswith("ok")
    """
    logging.disable(logging.CRITICAL)
    _reset_caches()
    from vk.ob import pick
    e0 = W.make_event(0, 0, 1, t0, [["t", pick(NUMVALS, v0)]])
    e1 = W.make_event(1, 0, 1, t1, [["t", pick(NUMVALS, v1)]])
    env = W.new_env()
    for task in (("add", [e0]), ("add", [e1]), ("del", [e0.id if del_first else e1.id])):
        W.run_writer(env, [task])
        err = W.coherence_error(env)
        if err:
            return "after %s: %s (tag values %r, %r)" % (task[0], err, pick(NUMVALS, v0), pick(NUMVALS, v1))
    return "ok"


FCASES = [(1, 0), (2, 0), (3, 0)]     # replacing, parameterised-replacing, kind-5 deleting


@obligation(funcs=["storage.kv.WriterThread.run", "storage.kv.WriterThread._post_save", "storage.kv.WriterThread._delete_event"],
            params=range(3), timeout=(450, 1800),
            bounds="history interrupted by an injected engine failure: store {e0}; 'add e1' (replacing / parameterised-replacing / "
                   "deleting e0) with the k-th mutation failing (k symbolic 1..13; quick tier 7 positions), then 'add e2': the store "
                   "is coherent afterwards")
def ob_coherent_under_fault(p1: bool, t0: int, t1: int, k: int) -> str:
    """
    pre: 1 <= t0 <= 200 and 1 <= t1 <= 200 and 1 <= k <= 13
    pre: THOROUGH or k in (1, 2, 5, 6, 7, 9, 11)
    post: _.startswith("ok")
    """
    logging.disable(logging.CRITICAL)
    scn, x = FCASES[PARAM % 3]
    e0, e1, last = K.build(scn, 0, t0, [], 1 if p1 else 0, t1, [0] if scn == 3 else [], x)
    e2 = W.make_event(4, 0, 1, 7, [["e", "later"]])
    env = W.new_env()
    W.run_writer(env, [("add", [e0])])
    env.fail_at = env.mutations + k
    W.run_writer(env, [("add", [e1]), ("add", [e2])])
    err = W.coherence_error(env)
    if err:
        return "after a failure at mutation %d: %s" % (k, err)
    return "ok"
