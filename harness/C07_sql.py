"""C07 (SQL backend) – engine fault at the k-th statement of DBStorage.add_event: nothing of the event remains,
the insert slot is released, nothing is broadcast, and a later event is still applied."""
import logging
from typing import List

from harness import _sqlstore as S
from harness import _kvcommon as K
from vk.ob import obligation, pick, PARAM, THOROUGH

KINDS = (1, 0, 5, 30000, 10000)


@obligation(funcs=["storage.db.DBStorage.add_event", "storage.db.DBStorage.pre_save", "storage.db.DBStorage.post_save",
                   "storage.db.DBStorage.process_tags"],
            timeout=(450, 1500),
            bounds="store {e0 (with a tag row)}; e1 of kind from {1,0,5,30000,10000} replacing / deleting / next to e0, with the "
                   "engine failing at the k-th statement (k symbolic 1..6); then e2 is submitted without fault")
def ob_sql_fault(k1: int, same_author: bool, t1: int, k: int, ref: bool) -> str:
    """
    pre: 0 <= k1 < 5 and 1 <= t1 <= 200 and 1 <= k <= 6
    post: _.startswith("ok")
    """
    logging.disable(logging.CRITICAL)
    st = S.make_store()
    kind1 = pick(KINDS, k1)
    e0 = S.evj(0, False, kind1 if kind1 != 5 else 1, 50, [["t", "x"], ["d", "a"]])
    S.drive(st.add_event(dict(e0)))
    pre_events = [dict(r) for r in st.db.tables["events"]]
    pre_tags = [dict(r) for r in st.db.tables["tags"]]
    st.broadcasts[:] = []
    tags = [["d", "a"]] + ([["e", S.IDS[0]]] if ref else [])
    e1 = S.evj(1, not same_author, kind1, t1, tags)
    base = st.db.executes
    st.db.fail_at = base + k
    failed = False
    try:
        S.drive(st.add_event(dict(e1)))
    except Exception:
        failed = True
    struck = st.db.executes >= base + k
    st.db.fail_at = None
    if struck:
        if not failed:
            return "engine error at statement %d was swallowed: the client is told the event was saved" % k
        if st.db.tables["events"] != pre_events or st.db.tables["tags"] != pre_tags:
            return "fault at statement %d left a partial state: events %d->%d tag rows %d->%d" % (
                k, len(pre_events), len(st.db.tables["events"]), len(pre_tags), len(st.db.tables["tags"]))
        if st.broadcasts:
            return "failed event was broadcast"
    if st.db.open_txns != 0 or st.add_slot.acquired != 0:
        return "transaction / insert slot leaked after a fault"
    e2 = S.evj(2, False, 1, 60, [["t", "y"]])
    try:
        ev, changed = S.drive(st.add_event(dict(e2)))
    except Exception as e:
        return "the event after the failed one was refused: %r" % (e,)
    if not changed or S.IDS[2] not in [r["id"].hex() for r in st.db.tables["events"]]:
        return "the event after the failed one was not stored"
    return "ok" if struck else "ok-nofault"
