"""C11 (SQL backend) – monotonicity of the generated WHERE clause: adding a condition to a filter or shrinking its
time window never selects a row the wider filter does not select.  Real build_query on holes -> sqlmini, both
statements evaluated over the same symbolic row."""
import logging
from typing import Optional

from aionostr.event import Event

from envmodel import sqlmini
from harness import _sqlcommon as S
from vk.ob import obligation, pick, PARAM

VALS = ("a", "b", "")


@obligation(funcs=["storage.db.Subscription.build_query", "storage.db.Subscription.evaluate_filter"], params=range(3), timeout=(350, 1200),
            bounds="wide filter {kinds:[k]} (+ until for PARAM 1,2); narrow = wide plus PARAM 0: a #e condition, 1: since (any "
                   "value incl. since == until), 2: a smaller until; event row with symbolic kind/created_at and one e tag")
def ob_sql_monotone(kind: int, ts: int, tv: int, k: int, until: int, since: int, v1: int, until2: int) -> str:
    """
    pre: 0 <= kind < 70000 and 1 <= ts < 4294967296 and 0 <= k < 70000 and 0 <= tv < 3 and 0 <= v1 < 3
    pre: 0 <= until < 2145934800 and 0 <= since < 2145934800 and 0 <= until2 <= until
    pre: PARAM == 0 or (tv == 0 and v1 == 0)
    pre: PARAM == 1 or since == 0
    pre: PARAM == 2 or until2 == 0
    pre: PARAM != 0 or until == 0
    post: _.startswith("ok")
    """
    logging.disable(logging.CRITICAL)
    wide = dict(kinds=[k])
    if PARAM in (1, 2):
        wide["until"] = until
    narrow = dict(wide)
    if PARAM == 0:
        narrow["tags"] = [("e", [pick(VALS, v1)])]
    elif PARAM == 1:
        narrow["since"] = since
    else:
        narrow["until"] = until2
    try:
        sw, envw, _ = S.template([wide])
        sn, envn, text = S.template([narrow])
    except sqlmini.Unsupported as ex:
        return "harness-error: generated SQL is outside the modelled grammar (%s)" % ex
    tags = [["e", pick(VALS, tv)]]
    ev = Event(id="00" * 32, pubkey="00" * 32, kind=kind, created_at=ts, tags=tags, content="", sig="00" * 64)
    row = dict(id=bytes(32), pubkey=bytes(32), kind=kind, created_at=ts, tags=S.tag_rows(ev))
    in_narrow = bool(sqlmini.evaluate(sn["where"], row, envn))
    in_wide = bool(sqlmini.evaluate(sw["where"], row, envw))
    if in_narrow and not in_wide:
        return "the narrower filter %r selects a row (kind %d, created_at %d) that %r does not" % (narrow, kind, ts, wide)
    return "ok" if in_narrow else "ok-nomatch"
