"""C04 – frames are well-formed JSON of the right shape; sub-id is echoed exactly.

Real code executed: nostr_relay.util.event_as_json, nostr_relay.web.send_subscriptions (EOSE and
EVENT branches).  json.encoder.encode_basestring (C) is replaced, in nostr_relay.util and
nostr_relay.web, by the symbolic-friendly reference refs.jsonlex.ebs (validated against the real one
at import).  One string is symbolic per obligation (sub-id, content, a tag item: <=2 characters over
an alphabet with one representative per lexical class of JSON strings), the tag *structure* is
symbolic in its own obligation.

Decision: frame == reference frame assembled with the trusted encoders; when the texts differ the
frame is parsed with json.loads and compared with ["EVENT", sub_id, event.to_json_object()].
"""
import json
import logging
from typing import List

import nostr_relay.util as U
import nostr_relay.web as W
from aionostr.event import Event

from refs import jsonlex
from vk.ob import obligation, PARAM, pick, real_lru_cache, fresh_module_state

jsonlex.selftest()
ALPH = 'a"\\\x00\n\x1f\x7fé \U0001F600'
ID, PK, SIG = "1" * 64, "2" * 64, "3" * 128


def _stub():
    U.encode_basestring = jsonlex.ebs
    if hasattr(W, "encode_basestring"):
        W.encode_basestring = jsonlex.ebs


def _ref_event_frame(sub_id, ev):
    tags = ",".join("[" + ",".join(jsonlex.ebs(i) for i in t) + "]" for t in ev.tags)
    return '["EVENT",%s,{"id":"%s","created_at":%d,"pubkey":"%s","kind":%d,"sig":"%s","content":%s,"tags":[%s]}]' % (
        jsonlex.ebs(sub_id), ev.id, ev.created_at, ev.pubkey, ev.kind, ev.sig, jsonlex.ebs(ev.content), tags)


def _judge(frame, ref, want):
    if frame == ref:
        return "ok"
    try:
        got = json.loads(frame)
    except ValueError:
        return "frame is not JSON: %r" % (frame,)
    if got != want:
        return "frame parses to %r, want %r" % (got, want)
    return "ok"


@obligation(funcs=["util.event_as_json"], timeout=(120, 600), params=range(3),
            bounds="one symbolic string (PARAM 0: sub-id, 1: content, 2: a tag item) of <=2 characters over "
                   "{a, quote, backslash, NUL, LF, U+001F, DEL, e-acute, U+2028, U+1F600}; "
                   "other fields concrete (numbers: ob_event_frame_numbers)")
def ob_event_frame_string(s: str) -> str:
    """
    pre: len(s) <= 2 and all(c in ALPH for c in s)
    post: _.startswith("ok")
    """
    kind, ts = 30023, 1700000000
    logging.disable(logging.CRITICAL)
    _stub()
    sub_id = s if PARAM == 0 else "sub"
    content = s if PARAM == 1 else "hello"
    tags = [["e", s, "x"]] if PARAM == 2 else [["e", "v"]]
    ev = Event(pubkey=PK, content=content, created_at=ts, kind=kind, tags=tags, id=ID, sig=SIG)
    frame = U.event_as_json(sub_id, ev)
    return _judge(frame, _ref_event_frame(sub_id, ev), ["EVENT", sub_id, ev.to_json_object()])


_ITEMS = ("a", '"', 7, None, True, ["n", 1.5], 1.0, False, 0.0)
_ITEMS_B = (True, 1.0, 0)


@obligation(funcs=["util.event_as_json"], timeout=(120, 600),
            bounds="tag structure symbolic: 1-2 tags (name + 0-2 items; second tag name + 0-1 items) drawn by symbolic "
                   "selector from {'a', quote, 7, null, true, nested list with a float, 1.0, false, 0.0} (values that compare equal across JSON types included) (non-string tag values are admissible: "
                   "the repo's tests store [\"expiration\", 1672329427])")
def ob_event_frame_structure(a: List[int], b: List[int], two: bool) -> str:
    """
    pre: len(a) <= 2 and len(b) <= 1 and all(0 <= i < 9 for i in a) and all(0 <= i < 3 for i in b)
    pre: two or not b
    post: _.startswith("ok")
    """
    logging.disable(logging.CRITICAL)
    real_lru_cache()          # caches inside the serializer keep their real semantics (arguments are concrete here)
    fresh_module_state(U)
    _stub()
    tags = [["t"] + [pick(_ITEMS, i) for i in a]] + ([["u"] + [pick(_ITEMS_B, i) for i in b]] if two else [])
    ev = Event(pubkey=PK, content="c", created_at=5, kind=1, tags=tags, id=ID, sig=SIG)
    frame = U.event_as_json("s", ev)
    try:
        got = json.loads(frame)
    except ValueError:
        return "frame is not JSON: %r" % (frame,)
    if got != ["EVENT", "s", ev.to_json_object()] or not _same_types(got[2]["tags"], tags):
        return "frame parses to %r, want %r" % (got[2]["tags"], tags)
    return "ok"


def _same_types(a, b):
    """JSON true/1/1.0 compare equal in Python: the served value must also have the accepted TYPE"""
    if isinstance(a, list) and isinstance(b, list):
        return len(a) == len(b) and all(_same_types(x, y) for x, y in zip(a, b))
    return type(a) is type(b) and a == b


class _NumHole(int):
    """an int whose textual rendering is a marker: shows where and how the template formats numbers"""

    def __new__(cls, value, mark):
        o = int.__new__(cls, value)
        o.mark = mark
        return o

    def __format__(self, spec):
        return "\x01%s:%s\x02" % (self.mark, spec)

    __str__ = __repr__ = lambda self: "\x01%s:str\x02" % self.mark


@obligation(funcs=["util.event_as_json"], timeout=(60, 120),
            bounds="numeric fields: concrete template check with marker ints (hole technique, DESIGN 2.5): created_at "
                   "and kind are rendered by plain format() of the stored int at a JSON number position; CPython's "
                   "int formatting is trusted.  Symbolic ints are NOT used here: str.from_int queries did not finish.")
def ob_event_frame_numbers(flag: bool) -> str:
    """
    post: _.startswith("ok")
    """
    logging.disable(logging.CRITICAL)
    _stub()
    ev = Event(pubkey=PK, content="c", created_at=7, kind=1, tags=[["e", "v"]], id=ID, sig=SIG)
    ev.created_at = _NumHole(7, "ts")
    ev.kind = _NumHole(1, "kind")
    frame = U.event_as_json("s", ev)
    want = _ref_event_frame("s", Event(pubkey=PK, content="c", created_at=7, kind=1, tags=[["e", "v"]], id=ID, sig=SIG))
    want = want.replace('"created_at":7,', '"created_at":\x01ts:\x02,').replace('"kind":1,', '"kind":\x01kind:\x02,')
    if frame != want:
        return "numeric fields are not rendered by plain format(): %r" % frame
    return "ok"


def _drive(coro):
    try:
        coro.send(None)
    except StopIteration as e:
        return e.value
    raise RuntimeError("coroutine suspended")


@obligation(funcs=["web.send_subscriptions"], timeout=(120, 600), params=range(2),
            bounds="sender task fed with one item then cancellation: PARAM 0 = (sub_id, None) -> EOSE, "
                   "PARAM 1 = (sub_id, event) -> EVENT; sub_id symbolic <=2 characters over the alphabet above")
def ob_sender_frames(sub_id: str) -> str:
    """
    pre: len(sub_id) <= 2 and all(c in ALPH for c in sub_id)
    post: _.startswith("ok")
    """
    logging.disable(logging.CRITICAL)
    _stub()
    import asyncio
    ev = Event(pubkey=PK, content="c", created_at=5, kind=1, tags=[["e", "v"]], id=ID, sig=SIG)
    items = [(sub_id, None if PARAM == 0 else ev)]
    sent = []

    async def get():
        if items:
            return items.pop(0)
        raise asyncio.CancelledError()

    async def ws_send(m):
        sent.append(m)

    _drive(W.send_subscriptions(get, ws_send, logging.getLogger("x")))
    if len(sent) != 1:
        return "sender sent %d frames for one queue item" % len(sent)
    if PARAM == 0:
        return _judge(sent[0], '["EOSE",%s]' % jsonlex.ebs(sub_id), ["EOSE", sub_id])
    return _judge(sent[0], _ref_event_frame(sub_id, ev), ["EVENT", sub_id, ev.to_json_object()])


_TAGSHAPES = ([], [["e", "x"]], [["d"]], [["d"], ["t", "nostr"], ["client", "demo"]], [["t", 5]], [["e", ""], ["e", ""]],
              [["p"], ["expiration", "99"]])


@obligation(funcs=["storage.db.DBStorage.add_event", "storage.db.DBStorage.process_tags", "storage.db.event_from_tuple",
                   "storage.kv.LMDBStorage.add_event", "storage.kv.encode_event", "storage.kv.decode_event", "storage.kv.matcher"],
            params=range(2), timeout=(350, 1200),
            bounds="PARAM 0 SQL / 1 LMDB.  An accepted event with symbolic kind/created_at and tags from 7 shapes (bare, empty, "
                   "duplicate, int value, long names) is compared field for field with (a) the object pushed live, (b) the event "
                   "read back from storage (SQL row -> event_from_tuple; LMDB msgpack row -> decode_event and the matcher's "
                   "reconstruction)")
def ob_served_verbatim(kind: int, ts: int, tsel: int) -> str:
    """
    pre: 0 <= kind < 40000 and 1 <= ts < 4294967296 and 0 <= tsel < 7
    post: _.startswith("ok")
    """
    logging.disable(logging.CRITICAL)
    import copy
    tags = copy.deepcopy(pick(_TAGSHAPES, tsel))
    submitted = dict(id=ID, pubkey=PK, created_at=ts, kind=kind, tags=copy.deepcopy(tags), content="hello \" there", sig=SIG)
    want = dict(submitted, tags=copy.deepcopy(tags))
    if PARAM == 0:
        from harness import _sqlstore as S
        from nostr_relay.storage import db as D
        st = S.make_store()
        S.drive(st.add_event(submitted))
        pushed = st.pushed
        rows = st.db.tables["events"]
        if len(rows) != 1:
            return "event not stored"
        r = rows[0]
        back = D.event_from_tuple((r["id"], r["created_at"], r["kind"], r["pubkey"], r["tags"], r["sig"], r["content"]))
        served = [back.to_json_object()]
    else:
        from envmodel import kvworld as W
        from envmodel.fake_asyncio import Loop
        from harness import _webcommon as C
        from nostr_relay.storage import kv
        loop = Loop()
        C.install(loop)
        st = C.Store(loop)
        env = W.new_env()
        st.db = env
        pushed = []

        async def notify_all(event):
            pushed.append(event)

        st.notify_all_connected = notify_all
        coro = st.add_event(submitted, auth_token={})
        try:
            coro.send(None)
        except StopIteration:
            pass
        W.run_writer(env, st.queued())
        served = []
        if not (20000 <= kind < 30000):
            with env.begin() as txn:
                data = kv.get_event_data(txn, bytes.fromhex(ID))
                if not data:
                    return "event not stored"
                served.append(kv.decode_event(data).to_json_object())
                for e in kv.matcher(txn, [bytes.fromhex(ID)], (), {}):
                    served.append(e.to_json_object())
    for p in pushed:
        if not _same_event(p.to_json_object(), want):
            return "live push differs from the accepted event: %r vs %r" % (p.to_json_object(), want)
    if len(pushed) != 1:
        return "pushed %d times" % len(pushed)
    for sv in served:
        if not _same_event(sv, want):
            return "served event differs from the accepted event: %r vs %r" % (sv, want)
    return "ok"


def _norm(x):
    if isinstance(x, (list, tuple)):
        return [_norm(i) for i in x]
    return x


def _same_event(a, b):
    return all(_same_types(_norm(a[k]), _norm(b[k])) for k in ("id", "pubkey", "created_at", "kind", "tags", "content", "sig"))
