"""C11 (LMDB) – answers are unaffected by non-matching neighbours, monotone in the filter, and a multi-value
condition is the union of its single values.

Real code executed: storage.kv.{planner, execute_one_plan, matcher, Index.scanner, MultiIndex.*,
compile_match_from_query (hole technique)}, WriterThread.run to build the stores – on the lmdb model.
"""
import logging
from typing import Optional

from envmodel import kvworld as W
from harness import _e2ecommon as E
from refs import nip01
from vk.ob import obligation, PARAM, THOROUGH

SHAPE = (0, 1, 2, 3, 4)[PARAM % 5]


def _ids(rows):
    return sorted(r["id"] for r in rows) if rows is not None else None


@obligation(funcs=["storage.kv.planner", "storage.kv.execute_one_plan", "storage.kv.Index.scanner", "storage.kv.matcher",
                   "storage.kv.MultiIndex.scanner"],
            params=range(5), timeout=(500, 1800),
            bounds="base store {e0}; neighbour X with author by bool, kind from {1,2}, created_at symbolic 1..200 (incl. equal to "
                   "e0's, with the smaller or the larger id), one tag from {none, t:a, t:ab, t:b} (extending / prefixing the "
                   "requested value); filter shape by PARAM (kinds, authors, #t, kinds+#t, authors+kinds), optional until; X is "
                   "constrained only by NOT matching the filter (reference may()); the answer with and without X must be equal")
def ob_neighbour_frame(k0: int, t0: int, g0: int, px: bool, kx: int, tx: int, gx: int, xid: bool,
                       fk1: int, fa: bool, fv1: int, until: Optional[int]) -> str:
    """
    pre: 0 <= k0 < 2 and 0 <= kx < 2 and 1 <= t0 <= 200 and 1 <= tx <= 200
    pre: 0 <= g0 < 4 and 0 <= gx < 4 and 0 <= fk1 < 2 and 0 <= fv1 < 3
    pre: until is None or 0 <= until <= 200
    pre: SHAPE in (0, 3, 4) or (fk1 == 0)
    pre: SHAPE in (1, 4) or not fa
    pre: SHAPE in (2, 3) or (fv1 == 0 and g0 == 0 and gx == 0)
    pre: until is None or SHAPE == 0
    pre: SHAPE not in (2, 3) or (not px and ((THOROUGH and SHAPE == 2) or (g0 in (1, 2) and xid and fv1 < 2)))
    pre: SHAPE in (0, 3, 4) or (k0 == 0 and kx == 0)
    pre: THOROUGH or SHAPE != 3 or (fv1 < 2 and kx == k0)
    post: _.startswith("ok")
    """
    logging.disable(logging.CRITICAL)
    e0 = E.event(1, False, k0, t0, g0)
    x = E.event(2 if xid else 0, px, kx, tx, gx)     # id above or below e0's
    f, q = E.make_filter(SHAPE, fk1, 0, False, fa, fv1, 0, None, until, 10)
    if nip01.may(f, E.row(x)):
        return "ok-x-matches"
    base = E.run_query(E.build_store([e0]), q)
    both = E.run_query(E.build_store([e0, x]), q)
    if _ids(base) != _ids(both):
        return "answer changed from %r to %r when the non-matching event %r was stored (filter %r, e0 %r)" % (
            _ids(base), _ids(both), E.row(x), f, E.row(e0))
    return "ok" if base else "ok-empty"


@obligation(funcs=["storage.kv.planner", "storage.kv.execute_one_plan", "storage.kv.Index.scanner", "storage.kv.matcher"],
            params=range(6), timeout=(500, 1800),
            bounds="store {e0, e1} (kinds {1,2}, created_at symbolic, one tag from 4); PARAM 0/3/4: kinds filter vs the same filter "
                   "plus a #t condition / plus until / plus since; PARAM 1: #t filter vs plus kinds; PARAM 2 (kinds) / 5 (tag values): union: kinds [2,1] vs "
                   "[2] and [1], #t [a,b] vs [a] and [b], with an optional symbolic until")
def ob_monotone_union(k0: int, t0: int, g0: int, k1: int, t1: int, g1: int, fk1: int, fv1: int, extra: int,
                      bound: int) -> str:
    """
    pre: 0 <= k0 < 2 and 0 <= k1 < 2 and 1 <= t0 <= 200 and 1 <= t1 <= 200
    pre: 0 <= g0 < 4 and 0 <= g1 < 4 and 0 <= fk1 < 2 and 0 <= fv1 < 3 and 0 <= extra < 3 and 0 <= bound <= 200
    pre: PARAM != 1 or extra == 0
    pre: PARAM not in (0, 3, 4) or extra == {0: 0, 3: 1, 4: 2}[PARAM]
    pre: PARAM in (2, 5) or ((extra == 0 or bound in (0, 50)) and (THOROUGH or (g0 < 3 and g1 < 2 and fv1 < 2 and k1 == 0)))
    pre: PARAM not in (2, 5) or (extra == (0 if PARAM == 2 else 1) and fk1 == 0 and fv1 == 0)
    pre: PARAM != 2 or (g0 == 0 and g1 == 0)
    pre: PARAM != 5 or (k0 == 0 and k1 == 0)
    pre: PARAM not in (2, 5) or (bound in (0, 50))
    post: _.startswith("ok")
    """
    logging.disable(logging.CRITICAL)
    e0 = E.event(0, False, k0, t0, g0)
    e1 = E.event(1, False, k1, t1, g1)
    env = E.build_store([e0, e1])
    if PARAM in (0, 3, 4):
        f, q = E.make_filter(0, fk1, 0, False, False, 0, 0, None, None, 10)
        if extra == 0:
            f2, q2 = E.make_filter(3, fk1, 0, False, False, fv1, 0, None, None, 10)
        elif extra == 1:
            f2, q2 = E.make_filter(0, fk1, 0, False, False, 0, 0, None, bound, 10)
        else:
            f2, q2 = E.make_filter(0, fk1, 0, False, False, 0, 0, bound, None, 10)
    elif PARAM == 1:
        f, q = E.make_filter(2, 0, 0, False, False, fv1, 0, None, None, 10)
        f2, q2 = E.make_filter(3, fk1, 0, False, False, fv1, 0, None, None, 10)
    else:
        shape = 0 if extra == 0 else 2
        u = None if bound == 0 else bound
        f, q = E.make_filter(shape, 1, 0, True, False, 0, 2, None, u, 10)       # kinds [2,1]  /  #t [a, b]
        fa_, qa = E.make_filter(shape, 1, 0, False, False, 0, 0, None, u, 10)    # kinds [2]    /  #t [a]
        fb_, qb = E.make_filter(shape, 0, 0, False, False, 2, 0, None, u, 10)    # kinds [1]    /  #t [b]
        whole = _ids(E.run_query(env, q))
        parts = sorted(set((_ids(E.run_query(env, qa)) or []) + (_ids(E.run_query(env, qb)) or [])))
        if whole != parts:
            return "answer to %r is %r but the union of the single-value answers is %r" % (f, whole, parts)
        return "ok" if whole else "ok-empty"
    wide = _ids(E.run_query(env, q)) or []
    narrow = _ids(E.run_query(env, q2)) or []
    for i in narrow:
        if i not in wide:
            return "narrower filter %r returned %s which the wider filter %r does not return" % (f2, i[-2:], f)
    return "ok" if narrow else "ok-empty"


_HEX = ("00" * 32, "ab" * 32, "ff" * 32)
_ITEMS_POOL = ((("authors", (_HEX[1],)),), (("authors", (_HEX[2],)),), (("authors", (_HEX[2], _HEX[1])),),
               (("ids", (_HEX[1],)),), (("ids", (_HEX[2],)),), (("ids", (_HEX[2], _HEX[1])),),
               (("authors", (_HEX[1],)), ("kinds", (1,))), (("kinds", (2, 1)),))


def _ref_items(items, e):
    for key, vals in items:
        field = {"authors": e["pubkey"], "ids": e["id"], "kinds": e["kind"]}[key]
        if field not in vals:
            return False
    return True


@obligation(funcs=["storage.kv.compile_match_from_query"], timeout=(200, 900),
            bounds="two residual matchers generated by the REAL compile_match_from_query (no holes: concrete query_items drawn by "
                   "symbolic selectors from 8 shapes – full-length authors / ids lists of 1-2 values, authors+kinds, kinds) one "
                   "after the other, as the lru_cache in front of the generator keeps the first alive while later filters are "
                   "compiled; event id/pubkey by selector from 3 values, kind symbolic 0..3: the first matcher's verdict on the "
                   "event is the same before and after the second one is compiled, and both agree with NIP-01 (the answer to a "
                   "filter does not depend on which other filters the relay has served)")
def ob_matchers_independent(i: int, j: int, idsel: int, pksel: int, kind: int) -> str:
    """
    pre: 0 <= i < 8 and 0 <= j < 8 and 0 <= idsel < 3 and 0 <= pksel < 3 and 0 <= kind <= 3
    post: _.startswith("ok")
    """
    logging.disable(logging.CRITICAL)
    from harness import C01_matcher as M
    from vk.ob import pick
    e = dict(id=pick(_HEX, idsel), pubkey=pick(_HEX, pksel), kind=kind, created_at=5, tags=[])
    et = M._et(e)
    items1, items2 = pick(_ITEMS_POOL, i), pick(_ITEMS_POOL, j)
    check1 = M._concrete_check(items1)
    before = bool(check1(et))
    check2 = M._concrete_check(items2)
    after = bool(check1(et))
    second = bool(check2(et))
    if before != _ref_items(items1, e):
        return "matcher for %r says %r for event %r" % (items1, before, e)
    if after != before:
        return "matcher for %r answered %r for event %r, and %r after a matcher for %r had been compiled" % (items1, before, e, after, items2)
    if second != _ref_items(items2, e):
        return "matcher for %r (compiled after one for %r) says %r for event %r" % (items2, items1, second, e)
    return "ok" if before or second else "ok-nomatch"
