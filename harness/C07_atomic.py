"""C07 – all effects of one event are applied atomically (decidable part: engine fault at a symbolic
mutation inside the write transaction; process kill / durability is behaviour of liblmdb / SQLite behind
FFI and is not encoded – see DESIGN §6).

Real code executed: storage.kv.WriterThread.{run, _post_save, _delete_event}, Index.write/clear on the lmdb
contract model whose k-th put/delete raises lmdb.Error (k symbolic).  What the model guarantees: a
transaction left by an exception is discarded.  What is checked: the writer keeps every mutation of one
event inside one transaction, swallows nothing inside it, survives the failure and applies the next task.
"""
import logging
from typing import List

from envmodel import kvworld as W
from harness import _kvcommon as K
from vk.ob import obligation, PARAM, THOROUGH

CASES = [(0, 0), (1, 0), (2, 0), (3, 0), (4, 2)]     # regular+delete task, replaceable, param-replaceable, kind-5, duplicate+ephemeral
SCN, X = CASES[PARAM % len(CASES)]


@obligation(funcs=["storage.kv.WriterThread.run", "storage.kv.WriterThread._post_save", "storage.kv.WriterThread._delete_event",
                   "storage.kv.Index.write", "storage.kv.Index.clear"],
            params=range(5), timeout=(500, 1800),
            bounds="store {e0}; the task 'add e1' (scenario by PARAM: regular, replacing e0, parameterised-replacing e0, kind-5 "
                   "deleting e0, ephemeral) runs with the engine failing at the k-th mutation, k symbolic 1..14 (quick tier: 7 positions for the replacing scenarios), followed by a "
                   "further task 'add e2' in the same writer loop; authors/timestamps symbolic, tags by selector (quick: <=1)")
def ob_fault_atomic(p0: bool, t0: int, g0: List[int], p1: bool, t1: int, g1: List[int], k: int) -> str:
    """
    pre: 1 <= t0 <= 200 and 1 <= t1 <= 200 and 1 <= k <= 14
    pre: K.pre_ok(SCN, g0, g1, p0, False)
    pre: (not g1 and not p0) and (THOROUGH or (not g0 and k <= 13))
    pre: not THOROUGH or (all(g < 3 for g in g0) and (SCN not in (1, 2) or not g0))
    pre: THOROUGH or SCN not in (1, 2) or k in (1, 2, 5, 6, 7, 9, 11)
    post: _.startswith("ok")
    """
    logging.disable(logging.CRITICAL)
    e0, e1, last = K.build(SCN, 1 if p0 else 0, t0, g0, 1 if p1 else 0, t1, g1, X)
    e2 = W.make_event(4, 0, 1, 7, [["e", "later"]])
    # fault-free reference run
    ref = W.new_env()
    W.run_writer(ref, [("add", [e0])])
    pre_keys = list(ref.keys)
    W.run_writer(ref, [("add", [e1])])
    full_keys = list(ref.keys)
    n_mut = ref.mutations
    # faulty run: same store, the k-th mutation of the second task fails
    env = W.new_env()
    W.run_writer(env, [("add", [e0])])
    base = env.mutations
    env.fail_at = base + k
    W.run_writer(env, [("add", [e1]), ("add", [e2])])
    after = [x for x in env.keys]
    e2_keys = W.expected_keys([dict(idb=bytes.fromhex(e2.id), pkb=bytes.fromhex(e2.pubkey), kind=1, created_at=7, tags=[["e", "later"]])])[1:]
    present = [key for key in e2_keys if key in after]
    rest = [x for x in after if x not in e2_keys]
    n1 = n_mut - base
    if k <= n1:
        # the fault struck while e1 was applied: e1 leaves no trace, e2 is applied completely
        if rest != pre_keys:
            return "fault at mutation %d of %d left a state that is neither before nor after: %d keys (before %d, after %d)" % (
                k, n1, len(rest), len(pre_keys), len(full_keys))
        if len(present) != len(e2_keys):
            return "the task after the failed one was not applied (writer loop stopped or half-applied)"
        return "ok"
    # the fault (if any) struck while e2 was applied: e1 complete, e2 all or nothing
    if rest != full_keys:
        return "e1 was applied without fault but the state differs from the fault-free run"
    if present and len(present) != len(e2_keys):
        return "fault inside the following task left it half applied (%d of %d keys)" % (len(present), len(e2_keys))
    return "ok-later" if not present else "ok-nofault"
