"""The REAL DBStorage.add_event / pre_save / post_save / process_tags on the in-memory engine model."""
import contextlib
import logging

import sqlalchemy as sa
from nostr_relay.storage import db as D
from nostr_relay.storage import get_metadata

from envmodel.fake_engine import FakeDB
from envmodel.fake_asyncio import Semaphore
from harness._webcommon import StubAuth
from vk.ob import pick

IDS = tuple("%02x" % b + "00" * 30 + "%02x" % c for (b, c) in ((0, 1), (0, 2), (0, 3), (255, 255), (0, 4)))
PKS = ("aa" * 32, "bb" * 32)
SIG = "cc" * 64


class _Stats:
    @contextlib.contextmanager
    def timeit(self, name):
        yield {"count": 0}


def make_store(reverse_order=False, can=True):
    import sqlalchemy
    D.sa = sqlalchemy   # other harnesses replace the module's `sa`; this one needs the real one
    st = object.__new__(D.DBStorage)
    st.log = logging.getLogger("x")
    st.is_postgres = False
    st.db = FakeDB(reverse_order)
    st.add_slot = Semaphore(4)
    st.query_slot = Semaphore(10)
    st.stat_collector = _Stats()
    st.authenticator = StubAuth(can=can)
    st.notifier = None
    st._notify_sub_tasks = []
    md = get_metadata()
    st.EventTable = md.tables["events"]
    st.tag_insert_query = sa.insert(md.tables["tags"]).prefix_with("OR IGNORE")
    st.event_insert_query = sa.insert(st.EventTable).prefix_with("OR IGNORE")
    st.broadcasts = []
    st.pushed = []
    st.announced = []

    async def validate(event, config):
        return None

    async def notify_all(event):
        st.broadcasts.append((event.id, st.db.open_txns))
        st.pushed.append(event)

    async def notify_other(event):
        st.announced.append((event.id, st.db.open_txns))

    st.validate_event = validate
    st.notify_all_connected = notify_all
    st.notify_other_processes = notify_other
    return st


def drive(coro):
    try:
        coro.send(None)
    except StopIteration as e:
        return e.value
    raise RuntimeError("suspended")


def evj(idx, pk, kind, ts, tags):
    return dict(id=IDS[idx], pubkey=PKS[1 if pk else 0], kind=kind, created_at=ts, tags=tags, content="c", sig=SIG)


def rows(st):
    out = []
    for r in st.db.tables["events"]:
        out.append(dict(id=r["id"].hex(), pubkey=r["pubkey"].hex(), kind=r["kind"], created_at=r["created_at"],
                        tags=[list(t) for t in r["tags"]]))
    return out


def tags_coherent(st):
    """every tag row belongs to a stored event"""
    ids = [r["id"] for r in st.db.tables["events"]]
    for t in st.db.tables["tags"]:
        if t["id"] not in ids:
            return "tag row (%r, %r) of a deleted event survives" % (t["name"], t["value"])
    return None
