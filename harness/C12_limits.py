"""C12 / C02 (end to end, LMDB) – a query returns every matching stored event exactly once when under its
limit, never more than the limit, and the newest ones first.

Real code executed: storage.kv.{planner, MultiIndex.finalize/scanner, execute_one_plan, matcher, Index.scanner,
compile_match_from_query (hole technique), WriterThread.run (to build the store), kv.Subscription.prepare}.
"""
import logging
from typing import List, Optional

from nostr_relay.storage import kv
from nostr_relay.config import Config

from envmodel import kvworld as W
from harness import _e2ecommon as E
from refs import nip01
from vk.ob import obligation, PARAM, THOROUGH

SHAPE = PARAM % 6
SPLIT_TWO = PARAM >= 6   # PARAM 8 = shape 2 with two tag values (PARAM 2: one value)


@obligation(funcs=["storage.kv.planner", "storage.kv.execute_one_plan", "storage.kv.matcher", "storage.kv.Index.scanner",
                   "storage.kv.MultiIndex.scanner", "storage.kv.MultiIndex.finalize", "storage.kv.compile_match_from_query"],
            params=(0, 1, 2, 3, 4, 5, 8), timeout=(500, 1800),
            bounds="store of 2 events (author by bool, kind from {1,2}, created_at symbolic 1..200, <=2 tags from {t:a, t:ab, "
                   "t:b}); filter shape by PARAM: 0 kinds(1-2 values), 1 authors, 2 #t (1-2 values, one a prefix of another), "
                   "3 kinds+#t (chained multi-index), 4 authors+kinds (composite index), 5 ids; since/until None or symbolic; "
                   "limit symbolic 0..3 (quick tier: limit in {1,3}, since only with the kinds shape)")
def ob_query_result(p0: bool, k0: int, t0: int, g0: int, h0: int, p1: bool, k1: int, t1: int, g1: int,
                    fk1: int, fk2: int, two: bool, fa: bool, fv1: int, fv2: int, since: Optional[int], until: Optional[int],
                    limit: int) -> str:
    """
    pre: 0 <= k0 < 2 and 0 <= k1 < 2 and 1 <= t0 <= 200 and 1 <= t1 <= 200
    pre: 0 <= g0 < 4 and 0 <= h0 < 4 and 0 <= g1 < 4
    pre: 0 <= fk1 < 2 and 0 <= fk2 < 2 and 0 <= fv1 < 3 and 0 <= fv2 < 3
    pre: since is None or 0 <= since <= 200
    pre: until is None or 0 <= until <= 200
    pre: 0 <= limit <= 3
    pre: SHAPE in (0, 3, 4) or (fk1 == 0 and fk2 == 0)
    pre: SHAPE in (0, 2) or not two
    pre: SHAPE in (1, 4) or not fa
    pre: SHAPE in (2, 3) or (fv1 == 0 and fv2 == 0)
    pre: SHAPE in (2, 3) or (g0 == 0 and h0 == 0 and g1 == 0)
    pre: h0 == 0 or SHAPE == 2 or (THOROUGH and SHAPE != 3)
    pre: THOROUGH or SHAPE == 0 or (since is None)
    pre: SHAPE in (0, 3, 4) or (k0 == 0 and k1 == 0)
    pre: SHAPE in (1, 4) or (not p0 and not p1)
    pre: THOROUGH or limit in (1, 3) or (limit == 0 and SHAPE in (0, 1))
    pre: SHAPE != 4 or (until is None and not two and (k0 == 0 or THOROUGH))
    pre: (since is None and until is None) or (SHAPE == 1 and since is None) or (THOROUGH and SHAPE == 0 and (since is None or until is None))
    pre: SHAPE != 2 or (until is None and h0 < 2 and g1 < 3 and (not SPLIT_TWO or (g0 in (1, 2) and g1 in (1, 3) and fv1 == 0)))
    pre: SHAPE != 2 or two == SPLIT_TWO
    pre: SHAPE != 3 or (g0 < 3 and g1 < 2 and fv1 < 2 and (limit == 3 or (THOROUGH and limit == 1)))
    pre: SHAPE != 3 or (until is None and not p0 and not p1)
    post: _.startswith("ok")
    """
    logging.disable(logging.CRITICAL)
    e0 = E.event(0, p0, k0, t0, g0, h0)
    e1 = E.event(1, p1, k1, t1, g1)
    env = E.build_store([e0, e1])
    f, q = E.make_filter(SHAPE, fk1, fk2, two, fa, fv1, fv2, since, until, limit)
    got = E.run_query(env, q)
    rows = [E.row(e0), E.row(e1)]
    must = [r for r in rows if nip01.must(f, r)]
    if got is None:
        return "planner dropped a filter that matches stored events: %r" % (f,) if must else "ok-dropped"
    ids = [r["id"] for r in got]
    for r in got:
        if not nip01.may(f, r):
            return "returned a non-matching event %r for %r" % (r, f)
    if len(set(ids)) != len(ids):
        return "event returned twice for one filter: %r for %r (store %r)" % ([i[-2:] for i in ids], f, rows)
    if len(got) > limit:
        return "returned %d events for limit %d" % (len(got), limit)
    may = [r for r in rows if nip01.may(f, r)]
    if len(may) <= limit:
        for r in must:
            if r["id"] not in ids:
                return "matching event %s missing (limit %d not reached): filter %r store %r got %r" % (r["id"][-2:], limit, f, rows, [i[-2:] for i in ids])
    else:
        # truncated: nothing left out may be newer than something returned
        for r in must:
            if r["id"] not in ids:
                for g in got:
                    if r["created_at"] > g["created_at"]:
                        return "limit %d kept the event from t=%d but dropped the matching one from t=%d (filter %r)" % (
                            limit, g["created_at"], r["created_at"], f)
    return "ok" if must else "ok-nomatch"


@obligation(funcs=["storage.kv.Subscription.prepare", "storage.kv.planner"], timeout=(60, 300),
            bounds="client-supplied limit symbolic 0..10^9 against a configured max_limit symbolic 1..10^4: the plan's effective "
                   "limit is min(limit, max_limit)")
def ob_limit_cap(limit: int, max_limit: int) -> str:
    """
    pre: 0 <= limit <= 1000000000 and 1 <= max_limit <= 10000
    post: _.startswith("ok")
    """
    logging.disable(logging.CRITICAL)
    import types
    f, q = E.make_filter(0, 0, 0, False, False, 0, 0, None, None, limit)
    st = types.SimpleNamespace(log=logging.getLogger("x"))
    sub = kv.Subscription(st, "s", [q], queue=None, client_id="c", default_limit=max_limit)
    if not sub.prepare():
        return "filter refused"
    eff = sub.query[0].limit
    want = limit if limit < max_limit else max_limit
    if eff != want:
        return "effective limit %r for client limit %d and max_limit %d" % (eff, limit, max_limit)
    return "ok"
