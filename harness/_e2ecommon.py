"""LMDB end-to-end query scaffolding: store built by the real writer from symbolic events, query run by the
real planner + execute_one_plan (scanner, matcher) with the real generated residual matcher (hole technique)."""
import logging

from nostr_relay.storage import kv
from nostr_relay.storage.base import NostrQuery

from envmodel import holes
from envmodel import kvworld as W
from vk.ob import pick

TAGS = (None, ["t", "a"], ["t", "ab"], ["t", "b"])
KINDS = (1, 2)


def event(idx, pk, ksel, ts, tsel, t2sel=0):
    tags = []
    for s in (tsel, t2sel):
        t = pick(TAGS, s)
        if t is not None:
            tags.append(list(t))
    return W.make_event(idx, 1 if pk else 0, pick(KINDS, ksel), ts, tags)


def row(ev):
    return dict(id=ev.id, pubkey=ev.pubkey, kind=ev.kind, created_at=ev.created_at, tags=[list(t) for t in ev.tags])


def build_store(events):
    env = W.new_env()
    W.run_writer(env, [("add", [e]) for e in events])
    return env


def make_filter(shape, k1, k2, two, a1, v1, v2, since, until, limit, idsel=0):
    """returns (reference filter dict, NostrQuery) for the shape; lists are distinct/descending like validation leaves them"""
    f = dict(ids=None, authors=None, kinds=None, since=since, until=until, tags=None)
    if shape in (0, 3, 4):
        ks = sorted(set([pick(KINDS, k1)] + ([pick(KINDS, k2)] if two else [])), reverse=True)
        f["kinds"] = ks
    if shape in (1, 4):
        f["authors"] = [W.PKS[1 if a1 else 0]]
    if shape in (2, 3):
        vs = sorted(set([pick(TAGS[1:], v1)[1]] + ([pick(TAGS[1:], v2)[1]] if (two and shape == 2) else [])))
        f["tags"] = [("t", vs)]
    if shape == 5:
        f["ids"] = [W.IDS[idsel]]
    q = NostrQuery.model_construct(ids=f["ids"], authors=f["authors"], kinds=f["kinds"], since=since, until=until, limit=limit,
                                   search=None, tags=[(n, set(v)) for (n, v) in f["tags"]] if f["tags"] else None)
    return f, q


def run_query(env, q, default_limit=None):
    """real planner + execute_one_plan; returns list of result rows or None when the planner dropped the filter"""
    holes.install(kv)
    plans = kv.planner([q], default_limit=default_limit)
    if not plans:
        return None
    plan, events = kv.execute_one_plan(env, plans[0], logging.getLogger("x"))
    return [row(e) for e in events]
