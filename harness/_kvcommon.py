"""Shared scenarios for the LMDB writer obligations (C06, C07, C08, C09, C10): bounded histories of
real writer tasks over the lmdb contract model, with symbolic timestamps/authors and tag shapes drawn
by symbolic selectors.  A scenario returns (env, pre_rows, new_event_row, post_rows)."""
from envmodel import kvworld as W
from vk.ob import pick

# tag pools --------------------------------------------------------------------------------------
GEN = (["e", "x"], ["é", "v"], ["xx", "not indexed"], ["e"], ["e", ""], ["e", "a\x00b"], ["t", 5], ["expiration", "50"],
       ["delegation", "zz"], ["p", "y"], ["t", 5.0], ["t", True])                       # general: indexable or not, bare, empty, NUL, int, multi-byte
DTAGS = (None, ["d", "a"], ["d", "ab"], ["d"], ["d", ""], ["d", "é"])   # None = no d tag
REFS = (["e", W.IDS[0]], ["e", W.IDS[1]], ["e", "zz"], ["e"], ["p", W.IDS[0]], ["e", W.IDS[0].upper()])
SCENARIOS = ("regular", "replaceable", "param-replaceable", "deletion", "duplicate-and-ephemeral")


def _tags(pool, sels):
    out = []
    for s in sels:
        t = pick(pool, s)
        if t is not None:
            out.append(list(t))
    return out


def row_of(ev):
    return dict(id=ev.id, pubkey=ev.pubkey, kind=ev.kind, created_at=ev.created_at, tags=[list(t) for t in ev.tags])


def build(scn, p0, t0, g0, p1, t1, g1, x):
    """returns (e0, e1, final_task).  x is a scenario-specific symbolic selector."""
    if scn == 0:      # two regular events with arbitrary tags, then delete e0 / delete unknown / nothing
        e0 = W.make_event(0, p0, 1, t0, _tags(GEN, g0))
        e1 = W.make_event(1, p1, 1, t1, _tags(GEN, g1))
        last = pick((("del", [W.IDS[0]]), ("del", [W.IDS[3]]), None), x)
    elif scn == 1:    # replaceable kinds 0 / 3 / 10000 / 19999 (x) for e1; e0 same kind or a neighbouring regular kind
        k = pick((0, 3, 10000, 19999), x % 4)
        k0 = k if x < 4 else pick((1, 4, 9999, 20000), x % 4)
        e0 = W.make_event(0, p0, k0, t0, _tags(GEN, g0))
        e1 = W.make_event(1, p1, k, t1, _tags(GEN, g1))
        last = None
    elif scn == 2:    # parameterised replaceable: d tags from DTAGS
        k0 = pick((30000, 30000, 39999, 40000), x)
        e0 = W.make_event(0, p0, k0, t0, _tags(DTAGS, g0))
        e1 = W.make_event(1, p1, 30000 if x != 2 else 39999, t1, _tags(DTAGS, g1))
        last = None
    elif scn == 3:    # NIP-09: e0 regular, e1 = kind 5 referencing own/foreign/unknown/malformed ids
        e0 = W.make_event(0, p0, 1, t0, _tags(GEN, g0))
        e1 = W.make_event(1, p1, 5, t1, _tags(REFS, g1))
        last = None
    else:             # e0 added twice (same id), e1 ephemeral boundary kinds
        e0 = W.make_event(0, p0, 1, t0, _tags(GEN, g0))
        e1 = W.make_event(1, p1, pick((19999, 20000, 29999, 30000), x), t1, _tags(GEN, g1))
        last = ("add", [W.make_event(0, p0, 1, t0, _tags(GEN, g0))])
    return e0, e1, last


# (scenario, x) pairs enumerated by PARAM
CASES = [(0, x) for x in range(3)] + [(1, x) for x in range(8)] + [(2, x) for x in range(4)] + [(3, 0)] + [(4, x) for x in range(4)]
QUICK_CASES = (0, 3, 5, 7, 11, 13, 15, 16, 18)   # indices into CASES used by the quick tier


def pre_ok(scn, g0, g1, p0, thorough):
    """domain of the selector arguments per scenario (smaller pools in the quick tier: ~1 path/s)"""
    if scn == 0:
        if thorough:
            return len(g0) <= 1 and len(g1) <= 1 and all(0 <= g < len(GEN) for g in g0) and all(0 <= g < 4 for g in g1)
        return len(g0) <= 1 and not g1 and all(0 <= g < len(GEN) for g in g0) and not p0
    if scn == 1:
        if thorough:
            return len(g0) <= 1 and len(g1) <= 1 and all(0 <= g < 3 for g in g0 + g1)
        return len(g0) <= 1 and not g1 and all(0 <= g < 2 for g in g0) and not p0
    if scn == 2:
        if thorough:
            return len(g0) <= 1 and len(g1) <= 1 and all(0 <= g < len(DTAGS) for g in g0 + g1)
        return len(g0) <= 1 and len(g1) <= 1 and all(0 <= g < 5 for g in g0 + g1) and not p0
    if scn == 3:
        if thorough:
            return not g0 and len(g1) <= 2 and all(0 <= g < len(REFS) for g in g1)
        return not g0 and len(g1) <= 1 and all(0 <= g < len(REFS) for g in g1)
    if thorough:
        return len(g0) <= 1 and len(g1) <= 1 and all(0 <= g < len(GEN) for g in g0) and all(0 <= g < 4 for g in g1)
    return len(g0) <= 1 and not g1 and all(0 <= g < 3 for g in g0) and not p0


def run(scn, p0, t0, g0, p1, t1, g1, x):
    """add e0; [state S1]; add e1; [state S2]; optional last task; [state S3]"""
    e0, e1, last = build(scn, 1 if p0 else 0, t0, g0, 1 if p1 else 0, t1, g1, x)
    env = W.new_env()
    W.run_writer(env, [("add", [e0])])
    s1 = W.stored_rows(env)
    W.run_writer(env, [("add", [e1])])
    s2 = W.stored_rows(env)
    if last is not None:
        W.run_writer(env, [last])
    s3 = W.stored_rows(env)
    return env, e0, e1, last, s1, s2, s3
