"""C09 – replaceable events on the LMDB backend: newest kept, older superseded, everything else untouched.

Real code executed: storage.kv.WriterThread.{run, _post_save (replaceable branch), _delete_event},
AuthorKindIndex scanner, decode_event, Event.has_tag – on the lmdb contract model.
Oracle: refs/effects.py (NIP-16/33 addresses; d value = value of the first d tag, '' if bare/absent).
"""
import logging
from typing import List

from harness import _kvcommon as K
from refs import effects
from vk.ob import obligation, PARAM, THOROUGH

CASES = [c for c in K.CASES if c[0] in (1, 2)]
SCN, X = CASES[PARAM % len(CASES)]


@obligation(funcs=["storage.kv.WriterThread._post_save", "storage.kv.WriterThread._delete_event", "storage.kv.Index.scanner",
                   "storage.kv.AuthorKindIndex.to_key"],
            params={"quick": (0, 3, 4, 8, 9, 10, 11), "thorough": range(len(CASES))}, timeout=(450, 1800),
            bounds="store {e0} then arrival of e1 (in-order, out-of-order and equal timestamps: created_at symbolic 1..200; "
                   "authors by symbolic bool).  PARAM 0-7: kinds {0,3,10000,19999} vs same kind / neighbouring regular kinds "
                   "{1,4,9999,20000}; PARAM 8-11: kinds 30000/39999/40000 with d tags by selector from {absent, a, ab, bare, "
                   "empty, unicode} (<=1 d tag per event in the quick tier, <=2 in thorough)")
def ob_replace_step(p0: bool, t0: int, g0: List[int], p1: bool, t1: int, g1: List[int]) -> str:
    """
    pre: 1 <= t0 <= 200 and 1 <= t1 <= 200
    pre: K.pre_ok(SCN, g0, g1, p0, THOROUGH)
    post: _.startswith("ok")
    """
    logging.disable(logging.CRITICAL)
    env, e0, e1, last, s1, s2, s3 = K.run(SCN, p0, t0, g0, p1, t1, g1, X)
    err = effects.check_add(s1, K.row_of(e1), s2)
    if err:
        return err
    same = effects.address(K.row_of(e0)) is not None and effects.address(K.row_of(e0)) == effects.address(K.row_of(e1))
    never_same = (SCN == 1 and X >= 4) or (SCN == 2 and X == 3)
    if never_same:
        return "ok" if e0.id in [r["id"] for r in s2] else "ok-gone"
    return "ok" if same else "ok-different-address"
