"""C18 – rate limiter: window bound, no over-blocking, address override, exemption, bounded state.

Real code executed: nostr_relay.rate_limiter.RateLimiter.{is_limited, evaluate_rules, cleanup,
parse_option, parse_options}.  The clock (`_timestamp`, i.e. perf_counter) is replaced by an
arbitrary non-decreasing sequence of *integers* (exact arithmetic; float rounding at ulp scale is
outside the claim).  Arrivals are (dt_i, addr_i in {A,B}, cmd_i in {EVENT,REQ}), all symbolic.
"""
import logging
from typing import List

from nostr_relay.rate_limiter import RateLimiter
from vk.ob import obligation, THOROUGH, PARAM

K = 4 if THOROUGH else 3  # number of arrivals
P_SCOPE = PARAM % 3
P_TWO = PARAM >= 3
A, B = "10.0.0.1", "10.0.0.2"


class RL(RateLimiter):
    """RateLimiter with the clock replaced by an explicit variable."""

    def __init__(self, rules):
        self.now = 0
        super().__init__({})
        self.rules = rules

    def _timestamp(self):
        return self.now


def _rules(pairs):
    r = [p for p in pairs]
    r.sort(reverse=True)  # what parse_option does
    return r


def _drive(rl, steps, addrs, cmds):
    """feed the arrivals; return [(t, addr, cmd, limited)]"""
    out = []
    t = 0
    for i in range(len(steps)):
        t += steps[i]
        rl.now = t
        addr = A if addrs[i] else B
        cmd = "EVENT" if cmds[i] else "REQ"
        limited = rl.is_limited(addr, [cmd])
        out.append((t, addr, cmd, limited))
    return out


def _count_window(admitted, t, interval):
    """admitted timestamps ts with t - interval < ts <= t"""
    return len([ts for ts in admitted if (t - ts) < interval and ts <= t])


def _worst_window(admitted, interval):
    worst = 0
    for a in admitted:
        c = len([b for b in admitted if a <= b < a + interval])
        if c > worst:
            worst = c
    return worst


@obligation(funcs=["rate_limiter.RateLimiter.is_limited", "rate_limiter.RateLimiter.evaluate_rules"],
            timeout=(90, 900), params=range(6),
            bounds="<=K arrivals (K=3 quick, 4 thorough), integer clock steps 0..130, one or two rules "
                   "(i1,n1),(i2,n2) with intervals in {1,60} (the parsed values of /s and /min), 1<=n<=3, "
                   "scope in {ip, global, address A}; addresses {A,B}")
def ob_window_bound(steps: List[int], addrs: List[bool], n1: int, n2: int) -> str:
    """
    pre: 1 <= len(steps) <= K and len(addrs) == len(steps)
    pre: all(0 <= s <= 130 for s in steps)
    pre: 1 <= n1 <= 3 and 1 <= n2 <= 3
    post: _.startswith("ok")
    """
    logging.disable(logging.CRITICAL)
    rules = _rules([(1, n1), (60, n2)] if P_TWO else [(1, n1)])
    key = ("ip", "global", A)[P_SCOPE]
    rl = RL({key: {"EVENT": rules}})
    log = _drive(rl, steps, addrs, [True] * len(steps))
    nontrivial = False
    # buckets: per address for ip / address rules, one bucket for global
    for bucket in ((A, B) if key != "global" else (None,)):
        if key == A and bucket == B:
            # no rule applies to B at all: nothing may be refused
            if any(l for (t, a, c, l) in log if a == B):
                return "refused %s although no rule applies to it" % B
            continue
        admitted = [t for (t, a, c, l) in log if not l and (bucket is None or a == bucket)]
        for interval, n in rules:
            w = _worst_window(admitted, interval)
            if w > n:
                return "admitted %d > n=%d in a window of %d: %r" % (w, n, interval, log)
        if len(admitted) < len([1 for (t, a, c, l) in log if bucket is None or a == bucket]):
            nontrivial = True
    return "ok" if nontrivial else "ok-trivial"


@obligation(funcs=["rate_limiter.RateLimiter.is_limited", "rate_limiter.RateLimiter.evaluate_rules"],
            timeout=(90, 900), params=range(6),
            bounds="<=K arrivals, integer clock, single scope (ip/global/address), one or two rules, 1<=n<=3")
def ob_no_overblocking(steps: List[int], addrs: List[bool], n1: int, n2: int) -> str:
    """
    pre: 1 <= len(steps) <= K and len(addrs) == len(steps)
    pre: all(0 <= s <= 130 for s in steps)
    pre: 1 <= n1 <= 3 and 1 <= n2 <= 3
    post: _.startswith("ok")
    """
    logging.disable(logging.CRITICAL)
    rules = _rules([(1, n1), (60, n2)] if P_TWO else [(1, n1)])
    key = ("ip", "global", A)[P_SCOPE]
    rl = RL({key: {"EVENT": rules}})
    log = _drive(rl, steps, addrs, [True] * len(steps))
    nontrivial = False
    for i in range(len(log)):
        t, a, c, limited = log[i]
        if not limited:
            continue
        nontrivial = True
        admitted = [tt for (tt, aa, cc, ll) in log[:i] if not ll and (key == "global" or aa == a)]
        if not any(_count_window(admitted, t, interval) >= n for (interval, n) in rules):
            return "refused at t=%d although no rule had passed n messages: %r" % (t, log)
    return "ok" if nontrivial else "ok-trivial"


@obligation(funcs=["rate_limiter.RateLimiter.is_limited", "rate_limiter.RateLimiter.evaluate_rules"],
            timeout=(90, 900),
            bounds="<=K arrivals, global rule (1,ng) and ip rule (1,ni) on the same command, 1<=n<=2, two addresses. "
                   "'passed by a rule' = let through by that rule's own evaluation (the repo's own test_ip_limits "
                   "pins that a message the global rule passed and the ip rule then refused still counts for global)")
def ob_two_scopes_no_overblocking(steps: List[int], addrs: List[bool], ng: int, ni: int) -> str:
    """
    pre: 1 <= len(steps) <= K and len(addrs) == len(steps)
    pre: all(0 <= s <= 3 for s in steps)
    pre: 1 <= ng <= 2 and 1 <= ni <= 2
    post: _.startswith("ok")
    """
    logging.disable(logging.CRITICAL)
    rl = RL({"global": {"EVENT": [(1, ng)]}, "ip": {"EVENT": [(1, ni)]}})
    log = _drive(rl, steps, addrs, [True] * len(steps))
    nontrivial = False
    passed_global = []          # timestamps the global rule let through
    passed_ip = {A: [], B: []}  # timestamps the ip rule let through, per address
    for i in range(len(log)):
        t, a, c, limited = log[i]
        g_full = _count_window(passed_global, t, 1) >= ng
        if not g_full:
            passed_global.append(t)
            i_full = _count_window(passed_ip[a], t, 1) >= ni
            if not i_full:
                passed_ip[a].append(t)
        want = g_full or i_full
        if limited:
            nontrivial = True
        if limited and not want:
            return "refused at t=%d although neither rule had passed n messages: %r" % (t, log)
        if not limited and want:
            return "admitted at t=%d beyond a limit: %r" % (t, log)
    admitted = [t for (t, a, c, l) in log if not l]
    if _worst_window(admitted, 1) > ng:
        return "admitted more than the global n in one window: %r" % (log,)
    for ad in (A, B):
        if _worst_window([t for (t, a, c, l) in log if not l and a == ad], 1) > ni:
            return "admitted more than the ip n in one window: %r" % (log,)
    return "ok" if nontrivial else "ok-trivial"


class RLConf(RateLimiter):
    """RateLimiter configured through its REAL constructor / parse_options from option text; only the clock is replaced."""

    def __init__(self, options):
        self.now = 0
        super().__init__(options)

    def _timestamp(self):
        return self.now


_MIN_TEXT = ("1/min", "2/min")
_SEC_TEXT = ("1/s", "2/s")


@obligation(funcs=["rate_limiter.RateLimiter.__init__", "rate_limiter.RateLimiter.parse_options", "rate_limiter.RateLimiter.parse_option",
                   "rate_limiter.RateLimiter.is_limited", "rate_limiter.RateLimiter.evaluate_rules"],
            timeout=(240, 900), params=range(4),
            bounds="limiter built by the real constructor from option text: a long rule ng/min in scope global (or for address A) and a "
                   "short rule ni/s in scope ip on the same command, either order of the scopes in the options dict, 1<=n<=2; "
                   "<=K arrivals, integer clock steps 0..70, two addresses")
def ob_configured_two_scopes(steps: List[int], addrs: List[bool], kg: int, ki: int) -> str:
    """
    pre: 1 <= len(steps) <= K and len(addrs) == len(steps)
    pre: all(0 <= s <= 70 for s in steps)
    pre: 0 <= kg < 2 and 0 <= ki < 2
    post: _.startswith("ok")
    """
    logging.disable(logging.CRITICAL)
    from vk.ob import pick
    ng, ni = kg + 1, ki + 1
    ip_first, long_is_address = bool(PARAM & 1), bool(PARAM & 2)  # one process per member
    long_scope = A if long_is_address else "global"
    if ip_first:
        options = {"ip": {"EVENT": pick(_SEC_TEXT, ki)}, long_scope: {"EVENT": pick(_MIN_TEXT, kg)}}
    else:
        options = {long_scope: {"EVENT": pick(_MIN_TEXT, kg)}, "ip": {"EVENT": pick(_SEC_TEXT, ki)}}
    rl = RLConf(options)
    if rl.rules.get(long_scope) != {"EVENT": [(60, ng)]} or rl.rules.get("ip") != {"EVENT": [(1, ni)]}:
        return "parse_options(%r) = %r" % (options, rl.rules)
    log = _drive(rl, steps, addrs, [True] * len(steps))
    nontrivial = False
    passed_long = []            # timestamps the long rule let through
    passed_ip = {A: [], B: []}  # timestamps the ip rule let through, per address
    for i in range(len(log)):
        t, a, c, limited = log[i]
        long_applies = (a == A) or not long_is_address
        l_full = long_applies and _count_window(passed_long, t, 60) >= ng
        i_full = False
        if not l_full:
            if long_applies:
                passed_long.append(t)
            if not (long_is_address and a == A):  # a specific-address rule stops the evaluation of the generic ones
                i_full = _count_window(passed_ip[a], t, 1) >= ni
                if not i_full:
                    passed_ip[a].append(t)
        want = l_full or i_full
        if limited:
            nontrivial = True
        if limited and not want:
            return "refused at t=%d although no applicable rule had passed n messages: %r" % (t, log)
        if not limited and want:
            return "admitted at t=%d beyond a limit (long rule %d/min in scope %s, ip rule %d/s): %r" % (t, ng, long_scope, ni, log)
    adm_long = [t for (t, a, c, l) in log if not l and (a == A or not long_is_address)]
    if _worst_window(adm_long, 60) > ng:
        return "admitted more than n=%d in one 60 s window of the %s rule: %r" % (ng, long_scope, log)
    return "ok" if nontrivial else "ok-trivial"


@obligation(funcs=["rate_limiter.RateLimiter.is_limited"],
            timeout=(90, 600),
            bounds="<=K arrivals from A and B, rules: address A (1,na) with na in {-1,1,2}, ip (1,ni), global (1,ng)")
def ob_address_override_and_exempt(steps: List[int], addrs: List[bool], na: int, ni: int, ng: int) -> str:
    """
    pre: 1 <= len(steps) <= K and len(addrs) == len(steps)
    pre: all(0 <= s <= 2 for s in steps)
    pre: na in (-1, 1, 2) and 1 <= ni <= 2 and 1 <= ng <= 2
    post: _.startswith("ok")
    """
    logging.disable(logging.CRITICAL)
    rl = RL({A: {"EVENT": [(1, na)]}, "ip": {"EVENT": [(1, ni)]}, "global": {"EVENT": [(1, ng)]}})
    log = _drive(rl, steps, addrs, [True] * len(steps))
    nontrivial = False
    for i in range(len(log)):
        t, a, c, limited = log[i]
        if a != A:
            continue
        adm_a = [tt for (tt, aa, cc, ll) in log[:i] if not ll and aa == A]
        passed = _count_window(adm_a, t, 1)
        if na == -1:
            nontrivial = True
            if limited:
                return "exempt address refused: %r" % (log,)
        else:
            nontrivial = True
            # only the address rule decides for A
            if limited != (passed >= na):
                return "address rule (n=%d, passed %d) not decisive for A at t=%d limited=%r: %r" % (na, passed, t, limited, log)
    return "ok" if nontrivial else "ok-trivial"


@obligation(funcs=["rate_limiter.RateLimiter.is_limited", "rate_limiter.RateLimiter.evaluate_rules"],
            timeout=(90, 600),
            bounds="<=K arrivals, different commands EVENT/REQ with separate rules; a REQ never consumes EVENT budget")
def ob_commands_independent(steps: List[int], cmds: List[bool], ne: int, nr: int) -> str:
    """
    pre: 1 <= len(steps) <= K and len(cmds) == len(steps)
    pre: all(0 <= s <= 2 for s in steps)
    pre: 1 <= ne <= 2 and 1 <= nr <= 2
    post: _.startswith("ok")
    """
    logging.disable(logging.CRITICAL)
    rl = RL({"ip": {"EVENT": [(1, ne)], "REQ": [(1, nr)]}})
    log = _drive(rl, steps, [True] * len(steps), cmds)
    nontrivial = False
    for i in range(len(log)):
        t, a, c, limited = log[i]
        n = ne if c == "EVENT" else nr
        adm = [tt for (tt, aa, cc, ll) in log[:i] if not ll and cc == c]
        if limited:
            nontrivial = True
        if limited != (_count_window(adm, t, 1) >= n):
            return "%s at t=%d limited=%r but passed=%d n=%d: %r" % (c, t, limited, _count_window(adm, t, 1), n, log)
    return "ok" if nontrivial else "ok-trivial"


@obligation(funcs=["rate_limiter.RateLimiter.is_limited", "rate_limiter.RateLimiter.evaluate_rules"],
            timeout=(90, 900), params=(0, 1, 3, 4),
            bounds="<=K+1 arrivals (sustained traffic below the limit included), one or two rules; state = length of "
                   "the per-scope deque after every step must be <= n of the longest-interval rule + 1")
def ob_state_bounded(steps: List[int], n1: int, n2: int) -> str:
    """
    pre: 1 <= len(steps) <= K + 1
    pre: all(0 <= s <= 130 for s in steps)
    pre: 1 <= n1 <= 2 and 1 <= n2 <= 3
    post: _.startswith("ok")
    """
    logging.disable(logging.CRITICAL)
    rules = _rules([(1, n1), (60, n2)] if P_TWO else [(1, n1)])
    bound = rules[0][1]  # n of the longest interval
    key = ("ip", "global", "ip")[P_SCOPE]
    rl = RL({key: {"EVENT": rules}})
    t = 0
    worst = 0
    for s in steps:
        t += s
        rl.now = t
        rl.is_limited(A, ["EVENT"])
        for cmds in rl.recent_commands.values():
            for d in cmds.values():
                if len(d) > worst:
                    worst = len(d)
        if worst > bound:
            return "state holds %d timestamps, configured rate allows %d per longest interval" % (worst, bound)
    return "ok" if len(steps) > bound else "ok-trivial"


@obligation(funcs=["rate_limiter.RateLimiter.cleanup", "rate_limiter.RateLimiter.is_limited"],
            timeout=(350, 1200),
            bounds="<=4 arrivals from A (steps 0..70) with cleanup() (some client disconnects) invoked after a symbolic one of "
                   "them, following a symbolic delay 0..70; ip rule (60,n), n in 1..2.  Every decision must be the one the "
                   "admitted history dictates (cleanup may only forget what no rule can count), and an address idle for "
                   "longer than the interval must be forgotten")
def ob_cleanup(steps: List[int], cpos: int, later: int, n: int, b_first: bool) -> str:
    """
    pre: 1 <= len(steps) <= 4 and 0 <= cpos < len(steps)
    pre: all(0 <= s <= 70 for s in steps)
    pre: 0 <= later <= 70 and 1 <= n <= 2
    post: _.startswith("ok")
    """
    logging.disable(logging.CRITICAL)
    from ipaddress import ip_address
    rl = RL({"ip": {"EVENT": [(60, n)]}})
    t = 0
    admitted = []
    nontrivial = False
    if b_first:
        rl.is_limited(B, ["EVENT"])  # B speaks once at t=0 and then stays idle
    for i in range(len(steps)):
        t += steps[i]
        rl.now = t
        limited = rl.is_limited(A, ["EVENT"])
        want = _count_window(admitted, t, 60) >= n
        if limited != want:
            return "arrival %d at t=%d was %s, admitted history %r (n=%d/60) says %s (cleanup after arrival %d)" % (
                i, t, "refused" if limited else "admitted", admitted, n, "refuse" if want else "admit", cpos)
        if not limited:
            admitted.append(t)
        if i == cpos:
            t += later
            rl.now = t
            rl.cleanup()
            if b_first and t > 60 and ip_address(B).packed in rl.recent_commands:
                return "cleanup at t=%d kept the state of an address idle since t=0" % t
            if i + 1 < len(steps):
                nontrivial = True
    return "ok" if nontrivial else "ok-trivial"


_SPELL = (("s", 1), ("sec", 1), ("second", 1), ("m", 60), ("min", 60), ("minute", 60), ("h", 3600), ("hr", 3600),
          ("hour", 3600), ("S", 1), ("Min", 60), ("HOUR", 3600))
_NS = (-1, 0, 1, 10, 1000000)


@obligation(funcs=["rate_limiter.RateLimiter.parse_option"], timeout=(120, 300),
            bounds="two comma separated rules 'n/unit', n from {-1,0,1,10,10^6} and unit among the 12 documented "
                   "spellings (all via symbolic selectors: 5*12 x 5*3 combinations), optional empty item")
def ob_parse_option(k1: int, u1: int, k2: int, u2: int, empties: bool) -> str:
    """
    pre: 0 <= k1 < 5 and 0 <= k2 < 5
    pre: 0 <= u1 < 12 and u2 in (0, 4, 8)
    post: _.startswith("ok")
    """
    logging.disable(logging.CRITICAL)
    from vk.ob import pick
    s1, i1 = pick(_SPELL, u1)
    s2, i2 = pick(_SPELL, u2)
    n1 = pick(_NS, k1)
    n2 = pick(_NS, k2)
    text = "%d/%s,%s%d/%s" % (n1, s1, "," if empties else "", n2, s2)
    rl = RL({})
    got = rl.parse_option(text)
    want = sorted([(i1, n1), (i2, n2)], reverse=True)
    if got != want:
        return "parse_option(%r) = %r, want %r" % (text, got, want)
    return "ok"
