"""C02 (LMDB residual matcher) – completeness: an event the filter must match is never rejected by the generated
predicate (same obligation body as C01's ob_matcher_vs_reference, which checks both directions; re-run here so
that the C02 check stands on its own)."""
from typing import List

from harness import C01_matcher
from vk.ob import obligation


@obligation(funcs=["storage.kv.planner", "storage.kv.compile_match_from_query"], params=range(8), timeout=(400, 1200),
            bounds=C01_matcher.ob_matcher_vs_reference._vk["bounds"])
def ob_matcher_complete(idsel: int, pksel: int, kind: int, ts: int, t1: List[int], t2: List[int], two: bool,
                        f_h1: int, f_h2: int, f_two: bool, k1: int, k2: int, since: int, until: int,
                        n1: int, v1: int, v2: int, n2: int, w1: int) -> str:
    """
    pre: C01_matcher.pre_ok(idsel, pksel, kind, ts, t1, t2, two, f_h1, f_h2, f_two, k1, k2, since, until, n1, v1, v2, n2, w1)
    post: _.startswith("ok")
    """
    return C01_matcher.matcher_body(idsel, pksel, kind, ts, t1, t2, two, f_h1, f_h2, f_two, k1, k2, since, until, n1, v1, v2, n2, w1)
