"""C02 (SQL backend) – completeness of the generated WHERE clause: every event a filter must match is selected
(the same obligation as C01's ob_sql_where, which checks both directions; re-run here so that the C02 check
stands on its own)."""
from typing import Optional

from harness import C01_sql
from vk.ob import obligation


@obligation(funcs=["storage.db.Subscription.build_query", "storage.db.Subscription.evaluate_filter",
                   "storage.db.DBStorage.process_tags"],
            params=range(9), timeout=(450, 1500), bounds=C01_sql.ob_sql_where._vk["bounds"])
def ob_sql_complete(idsel: int, pksel: int, kind: int, ts: int, tn: int, tv: int, bare: bool, deleg: int,
                    h1: int, k1: int, k2: int, two: bool, since: Optional[int], until: Optional[int], n1: int, v1: int, v2: int) -> str:
    """
    pre: C01_sql.pre_ok(idsel, pksel, kind, ts, tn, tv, bare, deleg, h1, k1, k2, two, since, until, n1, v1, v2)
    post: _.startswith("ok")
    """
    return C01_sql.where_body(idsel, pksel, kind, ts, tn, tv, bare, deleg, h1, k1, k2, two, since, until, n1, v1, v2)
