"""C14 – role-based authorization on every read and write path; output validator on every
delivery path.

Real code executed: auth.Authenticator.{can_do, evaluate_target, parse_options},
storage.kv.LMDBStorage.add_event, storage.db.DBStorage.add_event (up to the permission gate),
storage.base.BaseStorage.subscribe, storage.base.BaseSubscription.notify,
recipe.homeserver.whitelist_output_validator.  Storages are built without their constructors
(object.__new__) and get recorder stubs for everything behind the gate.
"""
import logging
import types
from typing import List

from nostr_relay import auth
from nostr_relay.errors import AuthenticationError, StorageError
from nostr_relay.storage import base as B
from vk.ob import obligation, pick, PARAM

ROLES = "arw"
EVJ = {"id": "ab" * 32, "pubkey": "cd" * 32, "created_at": 1700000000, "kind": 1, "tags": [], "content": "x", "sig": "ef" * 64}


def _drive(coro):
    try:
        coro.send(None)
    except StopIteration as e:
        return e.value
    raise RuntimeError("suspended")


def _set(bits):
    return set(ROLES[i] for i in range(3) if bits[i])


class _St:
    async def get_auth_roles(self, pk):
        return set("a")


@obligation(funcs=["auth.Authenticator.can_do", "auth.Authenticator.parse_options", "auth.Authenticator.evaluate_target"],
            timeout=(150, 600), params=range(9),
            bounds="action roles and token roles = arbitrary subsets of {a,r,w} (6 symbolic bools); PARAM = token {absent, "
                   "without roles, with roles} x action {save, query, unconfigured}; enabled symbolic")
def ob_can_do(a0: bool, a1: bool, a2: bool, t0: bool, t1: bool, t2: bool, enabled: bool) -> str:
    """
    post: _.startswith("ok")
    """
    logging.disable(logging.CRITICAL)
    tok, act = PARAM % 3, PARAM // 3
    aroles = _set((a0, a1, a2))
    troles = _set((t0, t1, t2))
    action = ("save", "query", "other")[act]
    configured = {"save": "".join(sorted(aroles))} if act == 0 else ({"query": "".join(sorted(aroles))} if act == 1 else {})
    a = auth.Authenticator(_St(), {"enabled": enabled, "actions": configured})
    token = (None, {"pubkey": "x"}, {"pubkey": "x", "roles": troles})[tok]
    got = _drive(a.can_do(token, action))
    eff_roles = troles if tok == 2 else set("a")
    if not enabled or act == 2:
        want = True
    else:
        want = bool(aroles & eff_roles)
    if got != want:
        return "can_do(%r, %s) = %r with action roles %r, want %r" % (token, action, got, sorted(aroles), want)
    return "ok" if enabled else "ok-open"


@obligation(funcs=["auth.Authenticator.can_do", "auth.Authenticator.parse_options"],
            timeout=(150, 600), params=range(2),
            bounds="ONE authenticator, two successive decisions for the same pubkey whose token roles differ (role change + "
                   "re-authentication in between), plus a decision for another pubkey / an anonymous connection in between; "
                   "action roles and both role sets = arbitrary subsets of {a,r,w}; PARAM = action {save, query}")
def ob_can_do_after_role_change(a0: bool, a1: bool, a2: bool, t0: bool, t1: bool, t2: bool, u0: bool, u1: bool, u2: bool,
                                other_anonymous: bool) -> str:
    """
    post: _.startswith("ok")
    """
    logging.disable(logging.CRITICAL)
    action = ("save", "query")[PARAM % 2]
    aroles = _set((a0, a1, a2))
    first, second = _set((t0, t1, t2)), _set((u0, u1, u2))
    a = auth.Authenticator(_St(), {"enabled": True, "actions": {action: "".join(sorted(aroles))}})
    seq = [({"pubkey": "x", "roles": first}, first),
           (None, set("a")) if other_anonymous else ({"pubkey": "y", "roles": second}, second),
           ({"pubkey": "x", "roles": second}, second),
           ({"pubkey": "x", "roles": first}, first)]
    for i in range(len(seq)):
        token, eff = seq[i]
        got = _drive(a.can_do(token, action))
        want = bool(aroles & eff)
        if got != want:
            return "decision %d: can_do(%r, %s) = %r with action roles %r, want %r (earlier decisions on this authenticator: %r)" % (
                i, token, action, got, sorted(aroles), want, [t for t, _ in seq[:i]])
    return "ok"


class _Authn:
    def __init__(self, allow, enabled=True):
        self.allow = allow
        self.is_enabled = enabled
        self.calls = []

    async def can_do(self, token, action, target=None):
        self.calls.append(action)
        return self.allow


class _Q:
    def __init__(self):
        self.items = []

    def put(self, x):
        self.items.append(x)


def _mk_kv(allow):
    """the LMDB storage as every other harness builds it (harness/_webcommon.Store: real add_event, stubbed leaves)"""
    from envmodel import kvworld
    from envmodel.fake_asyncio import Loop
    from harness import _webcommon as C
    loop = Loop()
    C.install(loop)
    st = C.Store(loop, auth=_Authn(allow))
    st.db = kvworld.new_env()
    st.effects = []

    async def validate(event, config):
        st.effects.append("validated")

    async def notify_all(event):
        st.effects.append("broadcast")

    async def notify_other(event):
        st.effects.append("announce")

    st.validate_event = validate
    st.notify_all_connected = notify_all
    st.notify_other_processes = notify_other

    class _QView:
        @property
        def items(self_):
            return st.queued()

    st.writer_queue_view = _QView()
    return st


def _mk_db(allow):
    from nostr_relay.storage import db
    st = object.__new__(db.DBStorage)
    st.log = logging.getLogger("x")
    st.authenticator = _Authn(allow)
    st.effects = []

    async def validate(event, config):
        st.effects.append("validated")

    st.validate_event = validate
    # anything behind the gate would touch these and fail loudly
    st.db = None
    st.add_slot = None
    st.stat_collector = None
    return st


@obligation(funcs=["storage.kv.LMDBStorage.add_event", "storage.db.DBStorage.add_event"], params=range(2), timeout=(60, 300),
            bounds="PARAM 0 LMDB / 1 SQL add_event with the authenticator answering can_do(save) = symbolic bool; everything "
                   "behind the gate is a recorder")
def ob_save_gate(allow: bool) -> str:
    """
    post: _.startswith("ok")
    """
    logging.disable(logging.CRITICAL)
    st = _mk_kv(allow) if PARAM == 0 else _mk_db(allow)
    try:
        _drive(st.add_event(dict(EVJ), auth_token={"pubkey": "x", "roles": set("r")}))
        outcome = "accepted"
    except AuthenticationError as e:
        outcome = "restricted" if str(e).startswith("restricted") else "autherror:%s" % e
    except Exception as e:
        outcome = "exception:%s" % type(e).__name__
    if not allow:
        if outcome != "restricted":
            return "save denied but add_event %s (effects %r)" % (outcome, st.effects)
        if "save" not in st.authenticator.calls:
            return "save permission never asked"
        bad = [e for e in st.effects if e != "validated"]
        queued = st.queued() if PARAM == 0 else []
        if bad or queued:
            return "save denied but effects happened: %r %r" % (bad, queued)
        return "ok"
    # allowed: LMDB goes on to store; SQL reaches the (absent) engine behind the gate
    if PARAM == 0 and outcome != "accepted":
        return "save allowed but add_event %s" % outcome
    return "ok-allowed"


class _Sub(B.BaseSubscription):
    started = 0

    def start(self):
        _Sub.started += 1


@obligation(funcs=["storage.base.BaseStorage.subscribe"], timeout=(60, 300),
            bounds="subscribe with can_do(query) = symbolic bool, one valid filter")
def ob_query_gate(allow: bool) -> str:
    """
    post: _.startswith("ok")
    """
    logging.disable(logging.CRITICAL)
    st = object.__new__(B.BaseStorage)
    st.log = logging.getLogger("x")
    st.clients = {}
    st.authenticator = _Authn(allow)
    st.subscription_class = _Sub
    _Sub.started = 0
    q = types.SimpleNamespace(items=[])

    async def put(x):
        q.items.append(x)

    q.put = put
    flt = B.NostrQuery.model_construct(ids=None, authors=None, kinds=[1], since=None, until=None, limit=10, search=None, tags=None)
    try:
        _drive(st.subscribe("client", "sub", [flt], q, auth_token={}))
        outcome = "accepted"
    except AuthenticationError as e:
        outcome = "restricted" if str(e).startswith("restricted") else "autherror"
    if not allow:
        if outcome != "restricted" or _Sub.started or st.clients.get("client") or q.items:
            return "query denied but subscribe %s (started=%d, registry=%r, queue=%r)" % (outcome, _Sub.started, st.clients, q.items)
        return "ok"
    if outcome != "accepted" or _Sub.started != 1:
        return "query allowed but subscribe %s" % outcome
    return "ok-allowed"


@obligation(funcs=["storage.base.BaseSubscription.notify", "storage.base.BaseSubscription.check_event"], timeout=(60, 300),
            bounds="live push of a matching event with an output validator answering a symbolic bool (and without one)")
def ob_output_validator_live(configured: bool, verdict: bool) -> str:
    """
    post: _.startswith("ok")
    """
    logging.disable(logging.CRITICAL)
    from aionostr.event import Event
    seen = []

    def check_output(event, context):
        seen.append((event.id, sorted(context)))
        return verdict

    st = types.SimpleNamespace(log=logging.getLogger("x"), check_output=check_output if configured else None)
    q = types.SimpleNamespace(items=[])

    async def put(x):
        q.items.append(x)

    q.put = put
    flt = B.NostrQuery.model_construct(ids=None, authors=None, kinds=[1], since=None, until=None, limit=10, search=None, tags=None)
    sub = B.BaseSubscription(st, "sub", [flt], queue=q, client_id="c", auth_token={"pubkey": "p"})
    ev = Event(**EVJ)
    _drive(sub.notify(ev))
    delivered = len(q.items)
    if configured and not verdict and delivered:
        return "event pushed live although the output validator rejected it"
    if configured and not seen:
        return "output validator not consulted for a live push"
    if (not configured or verdict) and delivered != 1:
        return "matching event not delivered (%d)" % delivered
    return "ok" if configured else "ok-unconfigured"


@obligation(funcs=["recipe.homeserver.whitelist_output_validator"], timeout=(60, 300),
            bounds="author / reader from 3 keys by selector, whitelist subset of 2 keys, kind symbolic, token absent or present")
def ob_homeserver_output(asel: int, rsel: int, w0: bool, w1: bool, kind: int, has_token: bool) -> str:
    """
    pre: 0 <= asel < 3 and 0 <= rsel < 3 and 0 <= kind < 20000
    post: _.startswith("ok")
    """
    from nostr_relay.recipe import homeserver as H
    pks = ("aa" * 32, "bb" * 32, "cc" * 32)
    wl = ([pks[0]] if w0 else []) + ([pks[1]] if w1 else [])
    ev = types.SimpleNamespace(pubkey=pick(pks, asel), kind=kind)
    ctx = {"config": types.SimpleNamespace(pubkey_whitelist=wl), "auth_token": {"pubkey": pick(pks, rsel)} if has_token else None,
           "client_id": "c"}
    got = bool(H.whitelist_output_validator(ev, ctx))
    in_wl = lambda s: (s == 0 and w0) or (s == 1 and w1)
    want = in_wl(asel) or (has_token and in_wl(rsel)) or kind == 10002
    if got != want:
        return "whitelist_output_validator=%r want %r" % (got, want)
    return "ok"


@obligation(funcs=["storage.db.Subscription.run_query", "storage.db.DBStorage.run_query", "storage.kv.Subscription.run_query"],
            params=range(2), timeout=(120, 600),
            bounds="PARAM 0 SQL / 1 LMDB stored-query task over 2 stored events with an output validator whose verdict per event "
                   "is symbolic (and without one): exactly the approved events are queued, then one sentinel")
def ob_output_validator_stored(configured: bool, v0: bool, v1: bool) -> str:
    """
    post: _.startswith("ok")
    """
    logging.disable(logging.CRITICAL)
    from aionostr.event import Event
    from envmodel.fake_asyncio import Loop
    from harness import _webcommon as C
    loop = Loop()
    C.install(loop)
    verdicts = {C.STORED[0].content: v0, C.STORED[1].content: v1}
    asked = []

    def check_output(event, context):
        asked.append(event.content)
        return verdicts[event.content]

    q = loop.namespace().Queue()
    if PARAM == 0:
        from harness import _sqlstore as S
        from harness.C13_protocol import _Stream
        from nostr_relay.storage import db as D
        D.asyncio = loop.namespace()
        st = S.make_store()
        st.check_output = check_output if configured else None
        rows = [(bytes.fromhex(e.id), e.created_at, e.kind, bytes.fromhex(e.pubkey), [], bytes.fromhex(e.sig), e.content)
                for e in C.STORED[:2]]

        class _Conn:
            def stream(self_, query):
                return _Stream(loop, rows, -1)

        class _Ctx:
            async def __aenter__(self_):
                return _Conn()

            async def __aexit__(self_, *a):
                return False

        st.db.connect = lambda: _Ctx()
        sub = D.Subscription.__new__(D.Subscription)
        sub.storage, sub.sub_id, sub.queue, sub.query, sub.filters = st, "s", q, "SELECT", []
        sub.client_id, sub.auth_token, sub.is_postgres = "c", {}, False
    else:
        from nostr_relay.storage import kv
        st = C.Store(loop)
        st.check_output = check_output if configured else None
        st.query_pool = None

        async def executor(env, plans, pool, **kw):
            yield ("plan", list(C.STORED[:2]))

        kv.executor = executor
        kv.analyze = lambda *a, **k: None
        sub = kv.Subscription(st, "s", [], queue=q, client_id="c", auth_token={})
        sub.query = kv.QueryPlans()
    loop.run(sub.run_query())
    got = [e.content for (s, e) in q.items if e is not None]
    want = [e.content for e in C.STORED[:2] if (not configured or verdicts[e.content])]
    if got != want:
        return "queued %r, the output validator approved %r" % (got, want)
    if [x for x in q.items if x[1] is None] != [("s", None)] or q.items[-1][1] is not None:
        return "sentinel missing / misplaced: %r" % ([x[1] is None for x in q.items],)
    if configured and sorted(asked) != sorted(e.content for e in C.STORED[:2]):
        return "output validator consulted for %r" % (asked,)
    return "ok" if configured else "ok-unconfigured"
