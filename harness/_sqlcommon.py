"""SQL backend scaffolding: the REAL db.Subscription.{evaluate_filter, build_query} run on hole values
(concretely, untraced) to obtain the statement template; envmodel/sqlmini.py parses it and evaluates its
WHERE clause over a symbolic event row with the holes bound to the actual (symbolic) filter values.
Tag rows of an event are produced by the REAL DBStorage.process_tags on a recording connection."""
import logging
import types

from nostr_relay.storage import db as D
from nostr_relay.storage.base import NostrQuery

from envmodel import sqlmini


class StrHole(str):
    """a str whose text is its hole name; len()/truthiness are the concrete facts the generator branches on"""

    def __new__(cls, name, length, truth=True):
        o = str.__new__(cls, name)
        o._len = length
        o._truth = truth
        return o

    def __len__(self):
        return self._len

    def __bool__(self):
        return self._truth

    def replace(self, *a):
        return self

    def lower(self):
        return self

    def __hash__(self):
        return str.__hash__(self)


class Holes:
    def __init__(self):
        self.env = {}
        self.n = 0

    def s(self, value, length=None):
        self.n += 1
        name = "__s%d" % self.n
        self.env[name] = value
        return StrHole(name, len(value) if length is None else length, truth=bool(value))

    def i(self, value):
        # equal values share one sentinel, so that a generator branching on EQUALITY of two filter values
        # (e.g. since == until) takes the same branch on holes as on the real values; the comparison is made here,
        # under tracing, and forks the path when the values are symbolic
        for key, prev in self.env.items():
            if key.startswith("#") and prev == value:
                return int(key[1:])
        self.n += 1
        sentinel = 900000 + self.n
        self.env["#%d" % sentinel] = value
        return sentinel


def subscription(default_limit=6000, postgres=False):
    sub = D.Subscription.__new__(D.Subscription)
    sub.is_postgres = postgres
    sub.default_limit = default_limit
    sub.log = logging.getLogger("x")
    sub.storage = None
    sub.sub_id = "s"
    sub.client_id = "c"
    return sub


class Dummy:
    """absorbs any SQLAlchemy-Core expression building (attribute access, calls, ==, &, <)"""

    def __init__(self, what="sa"):
        self._what = what

    def __getattr__(self, name):
        return Dummy(self._what + "." + name)

    def __call__(self, *a, **k):
        return Dummy(self._what + "()")

    def _op(self, other):
        return Dummy(self._what + "<op>")

    __eq__ = __ne__ = __lt__ = __gt__ = __le__ = __ge__ = __and__ = __or__ = _op

    def __hash__(self):
        return 0


class TextObj(str):
    """what the fake sa.text() returns: the statement text, with bound parameters carried along like a TextClause"""

    def __new__(cls, s, params=None):
        o = str.__new__(cls, s)
        o.params = dict(params or {})
        return o

    @property
    def text(self):
        return str(self)

    def bindparams(self, *a, **kw):
        p = dict(self.params)
        p.update(kw)
        return TextObj(str(self), p)

    def rendered(self):
        """bound integer parameters substituted into the text"""
        out = str(self)
        for k, v in self.params.items():
            out = out.replace(":" + k, str(v))
        return out


class _FakeSA(Dummy):
    @staticmethod
    def text(s):
        return TextObj(s)


def capture_text():
    """make sa.text() in the db module return its argument, so build_query yields the statement text; every other
    SQLAlchemy construct the module builds (delete/select/insert expressions) is absorbed"""
    D.sa = _FakeSA()


def template(filters, default_limit=6000):
    """filters: list of dicts with keys ids/authors/kinds/since/until/tags/limit whose values are actual values;
    returns (parsed statement, env)"""
    from crosshair.tracers import NoTracing
    H = Holes()
    qs = []
    for f in filters:
        kw = dict(ids=None, authors=None, kinds=None, since=None, until=None, limit=f.get("limit", default_limit), search=None, tags=None)
        if f.get("ids") is not None:
            kw["ids"] = [H.s(v) for v in f["ids"]]
        if f.get("authors") is not None:
            kw["authors"] = [H.s(v) for v in f["authors"]]
        if f.get("kinds") is not None:
            kw["kinds"] = [H.i(v) for v in f["kinds"]]
        if f.get("since") is not None:
            kw["since"] = H.i(f["since"])
        if f.get("until") is not None:
            kw["until"] = H.i(f["until"])
        if f.get("tags") is not None:
            kw["tags"] = [(H.s(n), [H.s(v) for v in vs]) for (n, vs) in f["tags"]]
        qs.append(NostrQuery.model_construct(**kw))
    capture_text()
    sub = subscription(default_limit)
    with NoTracing():
        text, new_filters = sub.build_query(qs)
    if isinstance(text, TextObj):
        text = text.rendered()
    return sqlmini.parse(text), H.env, text


class _Conn:
    def __init__(self):
        self.calls = []

    async def execute(self, stmt, params=None):
        self.calls.append((stmt, params))
        return types.SimpleNamespace(rowcount=1)


def tag_rows(event):
    """the (name, value) rows the REAL process_tags inserts for this event"""
    st = object.__new__(D.DBStorage)
    st.log = logging.getLogger("x")
    capture_text()
    st.tag_insert_query = "TAG_INSERT"
    st.EventTable = Dummy("events")
    conn = _Conn()
    coro = st.process_tags(conn, event)
    try:
        coro.send(None)
    except StopIteration:
        pass
    rows = []
    for stmt, params in conn.calls:
        if isinstance(stmt, str) and stmt == "TAG_INSERT":
            for p in params:
                rows.append((p["name"], p["value"]))
    return rows
