"""Shared scaffolding to drive the REAL connection handler nostr_relay.web.start_client (and the real
BaseStorage.subscribe/unsubscribe/notify_all_connected, LMDBStorage.add_event) on the loop model
envmodel/fake_asyncio.py.  Only leaf dependencies are stubbed: the websocket, json decoding of the
raw text (the harness hands over already-parsed values), the stored-query task body, the validator
pipeline / crypto, the authenticator and the writer thread's queue."""
import contextlib
import json
import logging
import queue as _queue
import types

import falcon

from aionostr.event import Event
from nostr_relay import web
from nostr_relay.config import Config
from nostr_relay.errors import AuthenticationError, StorageError
from nostr_relay.storage import base as B
from nostr_relay.storage import kv

from envmodel.fake_asyncio import Loop, CancelledError

ID1, ID2 = "11" * 32, "22" * 32
PK = "ab" * 32
SIG = "cd" * 64
VALID_EVENT = {"id": ID1, "pubkey": PK, "created_at": 1700000000, "kind": 1, "tags": [["e", "x"]], "content": "hi", "sig": SIG}
STORED_K2 = [Event(id="33" * 32, pubkey=PK, created_at=1500000000, kind=2, tags=[], content="k2", sig=SIG)]
STORED = [Event(id=ID2, pubkey=PK, created_at=1600000000 + i, kind=1, tags=[], content="s%d" % i, sig=SIG) for i in range(3)]


class _Stats:
    @contextlib.contextmanager
    def timeit(self, name):
        yield {"count": 0}


class StubSub(B.BaseSubscription):
    """stored-query task with the documented contract: the stored events, then one (sub_id, None)"""
    n_stored = 0
    slow = 0       # loop passes the query needs before it delivers (a real query awaits the database)

    async def run_query(self):
        for _ in range(StubSub.slow):
            await self.storage.loop.sleep(0)
        n = 0
        for ev in STORED + STORED_K2:
            if n >= StubSub.n_stored:
                break
            kinds = [k for f in self.filters for k in (f.kinds or [1])]
            if ev.kind in kinds:
                await self.queue.put((self.sub_id, ev))
                n += 1
        await self.queue.put((self.sub_id, None))


class StubAuth:
    def __init__(self, enabled=False, throttle=0, outcome="token", can=True):
        self.is_enabled = enabled
        self.throttle = throttle
        self.outcome = outcome
        self.can = can
        self.challenges = []

    def get_challenge(self, remote_addr):
        self.challenges.append("ch%d" % len(self.challenges))
        return self.challenges[-1]

    async def should_throttle(self, token):
        return self.throttle

    async def can_do(self, token, action, target=None):
        return self.can

    async def authenticate(self, payload, challenge=""):
        if self.outcome == "token":
            return {"pubkey": "who", "roles": set("a"), "challenge_seen": challenge}
        if self.outcome == "autherror":
            raise AuthenticationError("invalid: Bad signature")
        raise ValueError("boom")


class Store(kv.LMDBStorage):
    """real subscribe/unsubscribe/notify_all_connected/add_event; leaf services stubbed"""

    def __init__(self, loop, auth=None, validator=None):
        self.log = logging.getLogger("x")
        self.clients = {}
        self._notify_sub_tasks = []
        self.loop = loop
        self.stat_collector = _Stats()
        self.authenticator = auth or StubAuth()
        self.notifier = None
        self.subscription_class = StubSub
        self.check_output = None
        self.writer_queue = _queue.SimpleQueue()
        self.writer_thread = types.SimpleNamespace(pending=set(), queue=self.writer_queue)
        self.db = None
        self.validated = []

        async def validate(event, config):
            self.validated.append(event.id)
            if validator is not None:
                validator(event)

        self.validate_event = validate

    def queued(self):
        out = []
        while not self.writer_queue.empty():
            out.append(self.writer_queue.get())
        return out

    def run_writer(self, env):
        """let the (real) writer loop process everything queued so far; it shares the storage's pending set"""
        from envmodel import kvworld
        wt = kvworld.run_writer(env, self.queued(), pending=getattr(self.writer_thread, "pending", None))
        return wt


class ClientID:
    """deterministic stand-in for util.ClientID (random suffix + hash of a str)"""
    __slots__ = ("n", "__weakref__")
    count = 0

    def __init__(self, remote_addr):
        ClientID.count += 1
        self.n = ClientID.count

    def __hash__(self):
        return self.n

    def __eq__(self, other):
        return self is other

    def __str__(self):
        return "client%d" % self.n


class Conn:
    def __init__(self, loop, messages):
        self.loop = loop
        self.messages = list(messages)
        self.sent = []
        self.closed = []
        self.delivered = 0
        self.eager = []

    async def ws_recv(self):
        # eager[i]: message i is already buffered when the handler asks for it (receive() returns without
        # yielding to the loop); otherwise the client speaks after the relay went idle
        i = self.delivered
        if not (i < len(self.eager) and self.eager[i]):
            await self.loop.idle()
        if self.delivered >= len(self.messages):
            raise falcon.WebSocketDisconnected()
        self.delivered += 1
        return (self, self.delivered - 1)

    async def ws_send(self, text):
        self.sent.append((self.delivered, text))

    async def ws_close(self, code=1000):
        self.closed.append(code)

    def frames(self):
        return [json.loads(t) for (_, t) in self.sent]


class Limiter:
    def __init__(self, limited_at=()):
        self.limited_at = set(limited_at)
        self.n = 0
        self.cleaned = 0

    def is_limited(self, addr, message):
        self.n += 1
        return (self.n - 1) in self.limited_at

    def cleanup(self):
        self.cleaned += 1


def install(loop, tokens=None):
    """patch the module-level names of the repo modules for this obligation"""
    ns = loop.namespace()
    web.asyncio = ns
    B.asyncio = ns
    kv.asyncio = ns
    web.timeout = ns.timeout
    web.ClientID = ClientID
    ClientID.count = 0
    if tokens is not None:
        # the REAL util.ClientID with the random suffix drawn from a script (collisions are the solver's choice)
        import nostr_relay.util as U
        script = list(tokens)
        U.secrets = types.SimpleNamespace(token_hex=lambda n=2: script.pop(0) if script else "ffff")

        class RealClientID(U.ClientID):
            """the real class (its __init__, __eq__, __str__); only hash() of the id text is computed without the
            hash builtin, which CrossHair may turn into a symbolic int"""
            __slots__ = ()

            def __hash__(self):
                return sum(ord(c) for c in self._idstr)

        web.ClientID = RealClientID
    web.json_loads = lambda tok: tok[0].messages[tok[1]]
    web.time = lambda: 0
    # Event() substitutes time.time() for a missing created_at: CrossHair's nondeterministic clock would be realised
    import aionostr.event as AE
    AE.time = types.SimpleNamespace(time=lambda: 1700000000.0)


def run_client(loop, store, conn, limiter=None, remote_addr="10.0.0.9"):
    return web.start_client(store, conn.ws_send, conn.ws_recv, conn.ws_close, logging.getLogger("x"),
                            rate_limiter=limiter or Limiter(), remote_addr=remote_addr)
