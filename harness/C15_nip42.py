"""C15 – NIP-42: authentication succeeds only for a fresh, correctly signed answer to *this*
connection's challenge naming a URL the relay answers to.

Real code executed: nostr_relay.auth.Authenticator.{__init__, parse_options, check_auth_event,
authenticate}.  The signature check (`Event.verify`, secp256k1) is an oracle bool; `time` in
nostr_relay.auth is a symbolic clock; `storage.get_auth_roles` is a stub.
"""
import logging
from typing import List

from nostr_relay import auth
from nostr_relay.errors import AuthenticationError
from vk.ob import obligation, pick, PARAM, THOROUGH

URL = "ws://localhost:6969"
URL2 = "wss://relay.example"
# relay tag values: exact, substring, empty, superstring, other configured, unrelated
RELAYS = (URL, "localhost", "", URL + "/x", URL2, "ws://evil")
CH = "c1c1c1c1"      # this connection's challenge
CH_OTHER = "c2c2c2c2"  # challenge of another / an earlier connection
CHALLENGES = (CH, CH_OTHER, "", CH[:4])
# PARAM selects how the operator configured relay_urls
CONFIGS = (None, URL, [URL], [URL, URL2])  # None = key absent (default)
CONF = CONFIGS[PARAM % 4]
ALLOWED = [URL] if CONF is None or isinstance(CONF, str) else list(CONF)


class FakeEvent:
    def __init__(self, ok, kind, created_at, tags, pubkey="ab" * 32):
        self._ok = ok
        self.kind = kind
        self.created_at = created_at
        self.tags = tags
        self.pubkey = pubkey

    def verify(self):
        return self._ok


class Storage:
    async def get_auth_roles(self, pubkey):
        return set("a")


TAGS = tuple([["relay", r] for r in RELAYS] + [["challenge", c] for c in CHALLENGES] + [["x", "y"], ["relay"], ["challenge"]])
NT = 3 if THOROUGH else 2


def _authn():
    opts = {"enabled": True}
    if CONF is not None:
        opts["relay_urls"] = CONF
    return auth.Authenticator(Storage(), opts)


@obligation(funcs=["auth.Authenticator.check_auth_event", "auth.Authenticator.parse_options"], params=range(4),
            timeout=(150, 900),
            bounds="<=2 tags (3 in the thorough tier), each from {relay <one of 6 URL variants incl. substring/empty/superstring>, challenge <this, "
                   "other connection's, empty, prefix>, unrelated, bare relay, bare challenge} by symbolic selectors; kind, "
                   "created_at, now symbolic ints; signature oracle symbolic; relay_urls configured as absent / str / "
                   "[url] / [url, url2] (PARAM)")
def ob_check_auth_event(ok: bool, kind: int, created_at: int, now: int, sels: List[int]) -> str:
    """
    pre: len(sels) <= NT and all(0 <= s < 13 for s in sels)
    pre: 0 <= kind < 100000 and 0 <= created_at < 4294967296 and 0 <= now < 4294967296
    post: _.startswith("ok")
    """
    logging.disable(logging.CRITICAL)
    a = _authn()
    auth.time = lambda: now
    tags = [list(pick(TAGS, k)) for k in sels]
    ev = FakeEvent(ok, kind, created_at, tags)
    try:
        a.check_auth_event(ev, CH)
    except AuthenticationError:
        return "ok-rejected"
    except IndexError:
        return "ok-rejected-malformed"  # a bare tag: the handler closes the connection, identity unchanged
    if not ok:
        return "accepted with an invalid signature"
    if kind != 22242:
        return "accepted kind %d" % kind
    if not (-600 < now - created_at < 600):
        return "accepted created_at=%d at now=%d" % (created_at, now)
    relay_vals = [t[1] for t in tags if t[0] == "relay"]
    chal_vals = [t[1] for t in tags if t[0] == "challenge"]
    if not relay_vals or not all(v in ALLOWED for v in relay_vals):
        return "accepted relay tags %r, relay answers to %r" % (relay_vals, ALLOWED)
    if not chal_vals or not all(v == CH for v in chal_vals):
        return "accepted challenge tags %r on a connection whose challenge is %r" % (chal_vals, CH)
    return "ok"


@obligation(funcs=["auth.Authenticator.check_auth_event"], params=range(4), timeout=(60, 300),
            bounds="the canonical valid answer (kind 22242, fresh, [relay, URL], [challenge, this]) with symbolic clock skew")
def ob_valid_answer_accepted(created_at: int, now: int) -> str:
    """
    pre: 0 <= created_at < 4294967296 and 0 <= now < 4294967296
    pre: -600 < now - created_at < 600
    post: _.startswith("ok")
    """
    logging.disable(logging.CRITICAL)
    a = _authn()
    auth.time = lambda: now
    ev = FakeEvent(True, 22242, created_at, [["relay", ALLOWED[-1]], ["challenge", CH]])
    try:
        a.check_auth_event(ev, CH)
    except AuthenticationError as e:
        return "valid answer refused: %s" % e
    return "ok"


def _drive(coro):
    try:
        coro.send(None)
    except StopIteration as e:
        return e.value
    raise RuntimeError("suspended")


@obligation(funcs=["auth.Authenticator.authenticate", "auth.Authenticator.get_challenge"], timeout=(60, 300),
            bounds="authenticate() with payload types {dict valid, dict answering another challenge, list, str, None} "
                   "by selector: a token is returned only for the valid dict and carries the signer's pubkey")
def ob_authenticate(sel: int, swap: bool) -> str:
    """
    pre: 0 <= sel < 5
    post: _.startswith("ok")
    """
    logging.disable(logging.CRITICAL)
    a = auth.Authenticator(Storage(), {"enabled": True, "relay_urls": [URL]})
    auth.time = lambda: 1000
    made = []

    def fake_event(**kw):
        ev = FakeEvent(True, kw.get("kind"), kw.get("created_at"), kw.get("tags"), kw.get("pubkey"))
        made.append(ev)
        return ev

    auth.Event = fake_event
    good = {"kind": 22242, "created_at": 1000, "pubkey": "cd" * 32, "tags": [["relay", URL], ["challenge", CH]]}
    other = dict(good, tags=[["relay", URL], ["challenge", CH_OTHER]])
    payload = pick((good, other, [good], "x", None), sel)
    challenge = CH_OTHER if swap else CH
    try:
        tok = _drive(a.authenticate(payload, challenge=challenge))
    except AuthenticationError:
        return "ok-rejected"
    except Exception:
        return "ok-rejected-exception"
    expect_ok = (sel == 0 and not swap) or (sel == 1 and swap)
    if not expect_ok:
        return "token %r issued for payload %d under challenge %s" % (tok, sel, challenge)
    if tok.get("pubkey") != "cd" * 32:
        return "token names %r" % (tok.get("pubkey"),)
    return "ok"
