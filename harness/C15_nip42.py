"""C15 – NIP-42: authentication succeeds only for a fresh, correctly signed answer to *this*
connection's challenge naming a URL the relay answers to.

Real code executed: nostr_relay.auth.Authenticator.{__init__, parse_options, check_auth_event,
authenticate}.  The signature check (`Event.verify`, secp256k1) is an oracle bool; `time` in
nostr_relay.auth is a symbolic clock; `storage.get_auth_roles` is a stub.
"""
import logging
from typing import List

import aionostr.event as AE
from nostr_relay import auth
from nostr_relay.errors import AuthenticationError
from vk.ob import obligation, pick, PARAM, THOROUGH

URL = "ws://localhost:6969"
URL2 = "wss://relay.example"
# relay tag values: exact, substring, empty, superstring, other configured, unrelated
RELAYS = (URL, "localhost", "", URL + "/x", URL2, "ws://evil")
CH = "c1c1c1c1"      # this connection's challenge
CH_OTHER = "c2c2c2c2"  # challenge of another / an earlier connection
CHALLENGES = (CH, CH_OTHER, "", CH[:4])
# PARAM selects how the operator configured relay_urls
CONFIGS = (None, URL, [URL], [URL, URL2])  # None = key absent (default)
CONF = CONFIGS[PARAM % 4]
ALLOWED = [URL] if CONF is None or isinstance(CONF, str) else list(CONF)


PK, SIG = "ab" * 32, "cd" * 64
H_SIGNED = "11" * 32   # hash of the serialization the signer really signed
H_OTHER = "22" * 32    # hash of any other serialization


class _Blob:
    """stands for the canonical serialization of `data` without rendering it as text (rendering a symbolic
    int forks per digit): equal iff the serialized values are equal"""

    def __init__(self, data):
        self.data = data

    def encode(self, *a):
        return self

    def __eq__(self, other):
        return isinstance(other, _Blob) and self.data == other.data

    def __hash__(self):
        return 0


class Crypto:
    """oracle for aionostr.event: sha256 maps the FIRST serialization it sees (or, with `signed`, exactly
    that serialization) to H_SIGNED and everything else to H_OTHER; the signature verifies only for H_SIGNED
    and only when `ok`."""

    def __init__(self, ok=True):
        self.ok = ok
        self.signed = None
        self.n = 0

    def install(self):
        AE.PublicKey = self._pk
        AE.sha256 = self._sha
        AE.dumps = self._dumps

    def _dumps(self, data):
        return _Blob(data)

    def _sha(self, blob):
        if self.signed is None:
            self.signed = blob
        hx = H_SIGNED if blob == self.signed else H_OTHER

        class _H:
            def hexdigest(self_):
                return hx

            def digest(self_):
                return bytes.fromhex(hx)

        return _H()

    def _pk(self, raw):
        crypto = self

        class _K:
            def verify(self_, sig, msg):
                crypto.n += 1
                return crypto.ok and msg == bytes.fromhex(H_SIGNED) and sig == bytes.fromhex(SIG) and raw == bytes.fromhex(PK)

        return _K()


def FakeEvent(ok, kind, created_at, tags, pubkey=PK):
    """a REAL aionostr Event (every field present) whose crypto is the oracle above"""
    Crypto(ok).install()
    return AE.Event(pubkey=pubkey, kind=kind, created_at=created_at, tags=tags, content="", id=H_SIGNED, sig=SIG)


class Storage:
    async def get_auth_roles(self, pubkey):
        return set("a")


TAGS = tuple([["relay", r] for r in RELAYS] + [["challenge", c] for c in CHALLENGES] + [["x", "y"], ["relay"], ["challenge"]])
NT = 3 if THOROUGH else 2


def _authn():
    opts = {"enabled": True}
    if CONF is not None:
        opts["relay_urls"] = CONF
    return auth.Authenticator(Storage(), opts)


@obligation(funcs=["auth.Authenticator.check_auth_event", "auth.Authenticator.parse_options"], params=range(4),
            timeout=(150, 1500),
            bounds="<=2 tags (3 in the thorough tier), each from {relay <one of 6 URL variants incl. substring/empty/superstring>, challenge <this, "
                   "other connection's, empty, prefix>, unrelated, bare relay, bare challenge} by symbolic selectors; kind, "
                   "created_at, now symbolic ints; signature oracle symbolic; relay_urls configured as absent / str / "
                   "[url] / [url, url2] (PARAM)")
def ob_check_auth_event(ok: bool, kind: int, created_at: int, now: int, sels: List[int]) -> str:
    """
    pre: len(sels) <= NT and all(0 <= s < 13 for s in sels) and (len(sels) < 3 or sels[2] in (0, 1, 6, 7, 11))
    pre: 0 <= kind < 100000 and 1 <= created_at < 4294967296 and 0 <= now < 4294967296
    post: _.startswith("ok")
    """
    logging.disable(logging.CRITICAL)
    a = _authn()
    auth.time = lambda: now
    tags = [list(pick(TAGS, k)) for k in sels]
    ev = FakeEvent(ok, kind, created_at, tags)
    try:
        a.check_auth_event(ev, CH)
    except AuthenticationError:
        return "ok-rejected"
    except IndexError:
        return "ok-rejected-malformed"  # a bare tag: the handler closes the connection, identity unchanged
    if not ok:
        return "accepted with an invalid signature"
    if kind != 22242:
        return "accepted kind %d" % kind
    if not (-600 < now - created_at < 600):
        return "accepted created_at=%d at now=%d" % (created_at, now)
    relay_vals = [t[1] for t in tags if t[0] == "relay"]
    chal_vals = [t[1] for t in tags if t[0] == "challenge"]
    if not relay_vals or not all(v in ALLOWED for v in relay_vals):
        return "accepted relay tags %r, relay answers to %r" % (relay_vals, ALLOWED)
    if not chal_vals or not all(v == CH for v in chal_vals):
        return "accepted challenge tags %r on a connection whose challenge is %r" % (chal_vals, CH)
    return "ok"


@obligation(funcs=["auth.Authenticator.check_auth_event"], params=range(4), timeout=(60, 300),
            bounds="the canonical valid answer (kind 22242, fresh, [relay, URL], [challenge, this]) with symbolic clock skew")
def ob_valid_answer_accepted(created_at: int, now: int) -> str:
    """
    pre: 1 <= created_at < 4294967296 and 0 <= now < 4294967296
    pre: -600 < now - created_at < 600
    post: _.startswith("ok")
    """
    logging.disable(logging.CRITICAL)
    a = _authn()
    auth.time = lambda: now
    ev = FakeEvent(True, 22242, created_at, [["relay", ALLOWED[-1]], ["challenge", CH]])
    try:
        a.check_auth_event(ev, CH)
    except AuthenticationError as e:
        return "valid answer refused: %s" % e
    return "ok"


def _drive(coro):
    try:
        coro.send(None)
    except StopIteration as e:
        return e.value
    raise RuntimeError("suspended")


@obligation(funcs=["auth.Authenticator.authenticate", "auth.Authenticator.get_challenge"], timeout=(60, 300),
            bounds="authenticate() with payload types {dict valid, dict answering another challenge, list, str, None} "
                   "by selector: a token is returned only for the valid dict and carries the signer's pubkey")
def ob_authenticate(sel: int, swap: bool) -> str:
    """
    pre: 0 <= sel < 5
    post: _.startswith("ok")
    """
    logging.disable(logging.CRITICAL)
    a = auth.Authenticator(Storage(), {"enabled": True, "relay_urls": [URL]})
    auth.time = lambda: 1000
    Crypto(True).install()
    good = {"kind": 22242, "created_at": 1000, "pubkey": PK, "tags": [["relay", URL], ["challenge", CH]], "id": H_SIGNED,
            "sig": SIG, "content": ""}
    other = dict(good, tags=[["relay", URL], ["challenge", CH_OTHER]])
    payload = pick((good, other, [good], "x", None), sel)
    challenge = CH_OTHER if swap else CH
    try:
        tok = _drive(a.authenticate(payload, challenge=challenge))
    except AuthenticationError:
        return "ok-rejected"
    except Exception:
        return "ok-rejected-exception"
    expect_ok = (sel == 0 and not swap) or (sel == 1 and swap)
    if not expect_ok:
        return "token %r issued for payload %d under challenge %s" % (tok, sel, challenge)
    if tok.get("pubkey") != PK:
        return "token names %r" % (tok.get("pubkey"),)
    return "ok"


@obligation(funcs=["auth.Authenticator.check_auth_event", "auth.Authenticator.authenticate"], timeout=(120, 600),
            bounds="two answers on one Authenticator instance: first the genuine answer of the victim (accepted), then an event "
                   "re-using its id/pubkey/sig with the challenge of another connection and/or a fresh created_at (symbolic "
                   "choices; the signature oracle is valid only for the hash of the first serialization)")
def ob_replay_with_changed_fields(swap_challenge: bool, new_ts: int, same_relay: bool) -> str:
    """
    pre: 1 <= new_ts < 4294967296
    post: _.startswith("ok")
    """
    logging.disable(logging.CRITICAL)
    a = auth.Authenticator(Storage(), {"enabled": True, "relay_urls": [URL]})
    auth.time = lambda: 1000
    crypto = Crypto(True)
    crypto.install()
    first = AE.Event(pubkey=PK, kind=22242, created_at=1000, tags=[["relay", URL], ["challenge", CH]], content="", id=H_SIGNED, sig=SIG)
    try:
        a.check_auth_event(first, CH)
    except AuthenticationError as e:
        return "genuine answer refused: %s" % e
    auth.time = lambda: new_ts
    tags = [["relay", URL if same_relay else "ws://evil"], ["challenge", CH_OTHER if swap_challenge else CH]]
    second = AE.Event(pubkey=PK, kind=22242, created_at=new_ts, tags=tags, content="", id=H_SIGNED, sig=SIG)
    changed = swap_challenge or new_ts != 1000 or not same_relay
    try:
        a.check_auth_event(second, CH_OTHER if swap_challenge else CH)
    except AuthenticationError:
        return "ok" if changed else "verbatim replay on the same connection refused"
    if changed:
        return "an answer whose signed content was altered (challenge swapped=%r, created_at=%d) was accepted" % (swap_challenge, new_ts)
    return "ok-verbatim"


@obligation(funcs=["auth.Authenticator.get_challenge"], timeout=(60, 300),
            bounds="<=3 connections from the same or different addresses (symbolic): every challenge is a fresh draw of >=16 "
                   "random bytes from secrets (the generator is a counting stub: unpredictability itself is not a solver question)")
def ob_challenge_fresh(n: int, same_addr: bool) -> str:
    """
    pre: 1 <= n <= 3
    post: _.startswith("ok")
    """
    logging.disable(logging.CRITICAL)
    a = auth.Authenticator(Storage(), {"enabled": True, "relay_urls": [URL]})
    draws = []

    class _Secrets:
        @staticmethod
        def token_hex(nbytes=32):
            draws.append(nbytes)
            return "%032x" % len(draws)

        @staticmethod
        def token_bytes(nbytes=32):
            draws.append(nbytes)
            return bytes([len(draws)]) * nbytes

        @staticmethod
        def token_urlsafe(nbytes=32):
            draws.append(nbytes)
            return "u%d" % len(draws)

    auth.secrets = _Secrets
    got = [a.get_challenge("10.0.0.1" if same_addr else "10.0.0.%d" % i) for i in range(n)]
    if len(set(got)) != n:
        return "connections were given the same challenge: %r" % (got,)
    if any(len(c) < 32 for c in got):
        return "challenge shorter than 128 bits: %r" % (got,)
    if draws and (len(draws) < n or any(d < 16 for d in draws)):
        return "challenges are not fresh 128-bit draws: %r" % (draws,)
    return "ok"
