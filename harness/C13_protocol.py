"""C13 – subscription protocol: stored events then one EOSE per accepted REQ, NOTICE for a refused one,
nothing for a subscription after CLOSE / replacement / disconnect, subscription limit respected.

Real code executed: web.start_client, web.send_subscriptions, storage.base.BaseStorage.{subscribe,
unsubscribe, notify_all_connected}, BaseSubscription.{start, cancel, notify, check_event},
NostrQuery.model_validate, storage.kv.LMDBStorage.add_event – on the loop model (each client message is
delivered when the relay is idle; which of the two connections speaks next is fixed by the scenario).
"""
import logging
from typing import List

from nostr_relay.config import Config

from envmodel.fake_asyncio import Loop, Deadlock
from harness import _webcommon as C
from vk.ob import obligation, pick, PARAM, THOROUGH

F1, F2 = {"kinds": [1]}, {"kinds": [2]}
FILTERS = ([F1], [F2], [], [{"kinds": "x"}], [{"kinds": "x"}, F1], [{}], [F1, F2], [{"ids": []}])
#           ok    ok   none  all invalid     partly invalid        empty   two ok   unsatisfiable
SUBIDS = ("a", "b", 5, None, "\x00\"", ["x"])


@obligation(funcs=["web.start_client", "web.send_subscriptions", "storage.base.BaseStorage.subscribe",
                   "storage.base.NostrQuery.model_validate"],
            timeout=(350, 1200),
            bounds="one REQ with sub id from {a, b, 5, null, NUL+quote, list} and filter list from 8 shapes (valid, none, all "
                   "invalid, partly invalid, empty object, two filters, unsatisfiable) by symbolic selectors; 0-2 stored events; "
                   "query permission granted or not")
def ob_req_answer(sid: int, fsel: int, n_stored: int, can: bool) -> str:
    """
    pre: 0 <= sid < 6 and 0 <= fsel < 8 and 0 <= n_stored <= 2
    post: _.startswith("ok")
    """
    logging.disable(logging.CRITICAL)
    loop = Loop()
    C.install(loop)
    C.StubSub.n_stored = n_stored
    Config.subscription_limit = 32
    store = C.Store(loop, auth=C.StubAuth(can=can))
    raw_id = pick(SUBIDS, sid)
    conn = C.Conn(loop, [["REQ", raw_id] + [dict(f) for f in pick(FILTERS, fsel)]])
    try:
        loop.run(C.run_client(loop, store, conn))
    except Deadlock as e:
        return "handler wedged: %s" % e
    loop.settle()
    frames = conn.frames()
    want_id = str(raw_id)
    notices = [f for f in frames if f[0] == "NOTICE"]
    eoses = [f for f in frames if f[0] == "EOSE"]
    events = [f for f in frames if f[0] == "EVENT"]
    if not notices and not eoses:
        return "REQ met with silence: %r" % (frames,)
    if notices and (eoses or events):
        return "refused REQ also got %r" % (frames,)
    if eoses:
        if len(eoses) != 1 or eoses[0] != ["EOSE", want_id]:
            return "EOSE frames %r for sub id %r" % (eoses, want_id)
        if frames[-1][0] != "EOSE" and not conn.closed:
            return "stored events after EOSE: %r" % ([f[0] for f in frames],)
        if any(f[1] != want_id for f in events):
            return "EVENT frames under a foreign sub id"
        if not can and events:
            return "stored events served without the query permission"
    return "ok" if eoses else "ok-refused"


MSGS = (("REQ", "a", F1), ("REQ", "a", F2), ("REQ", "b", F1), ("CLOSE", "a"), ("CLOSE", "b"), ("REQ", "c", F1),
        ("REQ", "a", {"kinds": "x"}), ("REQ", "a"), ("REQ", 7, F1), ("CLOSE", 7))
#        re-subscription of "a" with an invalid / no filter (answered by a bare EOSE), numeric sub id
NM = 3 if THOROUGH else 2


@obligation(funcs=["web.start_client", "storage.base.BaseStorage.subscribe", "storage.base.BaseStorage.unsubscribe",
                   "storage.base.BaseStorage.notify_all_connected", "storage.base.BaseSubscription.notify",
                   "storage.kv.LMDBStorage.add_event"],
            timeout=(450, 1800), params=range(4),
            bounds="PARAM 2,3 = PARAM 0,1 with every frame of connection 1 already buffered (the handler reads them back to back without yielding, so a CLOSE / replacement can overtake the stored-query task: then AT MOST one EOSE per accepted REQ).  connection 1 sends <=2 (thorough 3) messages by symbolic selector from {REQ a kinds[1], REQ a kinds[2], REQ b "
                   "kinds[1], CLOSE a, CLOSE b, REQ c kinds[1], REQ a <invalid filter>, REQ a <no filter>, REQ 7, CLOSE 7}, then (PARAM 0) stays connected / (PARAM 1) disconnects; then "
                   "connection 2 submits a kind-1 event; subscription_limit symbolic in {1,2}; 1 stored event per query")
def ob_sequence(ms: List[int], limit: int) -> str:
    """
    pre: len(ms) <= NM and all(0 <= m < 10 for m in ms) and 1 <= limit <= 2
    post: _.startswith("ok")
    """
    return sequence_body(ms, limit)


def sequence_body(ms, limit):
    """body of ob_sequence (contract-free so that harness/C01_protocol.py can reuse it)"""
    logging.disable(logging.CRITICAL)
    loop = Loop()
    C.install(loop)
    C.StubSub.n_stored = 1
    Config.subscription_limit = limit
    store = C.Store(loop)
    store.db = _Env()
    msgs = [list(pick(MSGS, m)) for m in ms]
    conn1 = C.Conn(loop, msgs)
    EAGER = PARAM >= 2
    MODE = PARAM % 2
    if EAGER:
        conn1.eager = [True] * len(msgs)
    conn2 = C.Conn(loop, [["EVENT", dict(C.VALID_EVENT)]])
    gate = {"open": False}
    orig_recv2 = conn2.ws_recv

    async def recv2():
        # connection 2 speaks only after connection 1 has said everything (and, PARAM 1, has gone)
        while not gate["open"]:
            await loop.idle()
            gate["open"] = conn1.delivered >= len(conn1.messages) and (MODE == 0 or conn1.gone)
        return await orig_recv2()

    conn1.gone = False
    orig_recv1 = conn1.ws_recv

    async def recv1():
        if conn1.delivered >= len(conn1.messages):
            if MODE == 1:
                conn1.gone = True
                return await orig_recv1()      # raises WebSocketDisconnected
            while not conn2.sent or True:
                await loop.idle()              # stays connected, says nothing more
                if conn2.done:
                    return await orig_recv1()
        return await orig_recv1()

    conn2.done = False
    conn1.ws_recv = recv1
    conn2.ws_recv = recv2

    async def client2():
        await C.run_client(loop, store, conn2)
        conn2.done = True

    t1 = loop.create_task(C.run_client(loop, store, conn1), "conn1")
    try:
        loop.run(client2())
        loop.run(_join(t1))
    except Deadlock as e:
        return "wedged: %s" % e
    except C.CancelledError:
        return "CancelledError escaped the connection handler (messages %r)" % (msgs,)
    loop.settle()
    # ---- reference: which subscriptions are open when the event arrives -------------------------
    open_subs = {}
    answered = []
    for m in msgs:
        sid = str(m[1])
        if m[0] == "REQ":
            if sid in open_subs:
                del open_subs[sid]
            if len(open_subs) >= limit:
                answered.append(("NOTICE", sid))
                continue
            answered.append(("EOSE", sid))
            if len(m) > 2 and m[2] in (F1, F2):
                open_subs[sid] = m[2]       # a REQ without a valid filter is answered by EOSE and opens nothing
        else:
            open_subs.pop(sid, None)
    if MODE == 1:
        open_subs = {}
    frames = conn1.frames()
    got_answers = [(f[0], f[1]) for f in frames if f[0] == "EOSE"] + [("NOTICE", None) for f in frames if f[0] == "NOTICE"]
    n_acc = len([a for a in answered if a[0] == "EOSE"])
    n_eose = len([g for g in got_answers if g[0] == "EOSE"])
    if not EAGER and n_acc != n_eose:
        return "accepted REQs %r but EOSE frames %r" % (answered, got_answers)
    if EAGER:
        # a REQ overtaken by CLOSE / replacement / disconnect may lose its EOSE, never gain one
        for sid in set(a[1] for a in answered):
            acc = len([a for a in answered if a == ("EOSE", sid)])
            got = len([g for g in got_answers if g == ("EOSE", sid)])
            still_open = 1 if (sid in open_subs or (MODE == 0 and any(a == ("EOSE", sid) for a in answered[-1:]))) else 0
            if got > acc:
                return "sub %r: %d EOSE frames for %d accepted REQs" % (sid, got, acc)
            if MODE == 0 and sid in open_subs and got < 1:
                return "sub %r is open after all messages but never got its EOSE: %r" % (sid, got_answers)
    if len([a for a in answered if a[0] == "NOTICE"]) != len([g for g in got_answers if g[0] == "NOTICE"]):
        return "refused REQs %r but frames %r" % (answered, [f[:2] for f in frames])
    # stored events (kind 1 for the kinds[1] filter, kind 2 for kinds[2]) served under a sub id must match a filter that
    # was given for that id; when everything was buffered, only the LAST filter given for the id can still be served
    for f in frames:
        if f[0] == "EVENT" and f[2]["id"] != C.ID1:
            given = [m[2] for m in msgs if m[0] == "REQ" and str(m[1]) == f[1] and len(m) > 2 and m[2] in (F1, F2)]
            if EAGER:
                given = given[-1:]
            if not any(f[2]["kind"] in g["kinds"] for g in given):
                return "stored event of kind %d served under %r whose filter(s) are %r (messages %r)" % (f[2]["kind"], f[1], given, msgs)
    live = [f[1] for f in frames if f[0] == "EVENT" and f[2]["id"] == C.ID1]
    want_live = sorted(s for (s, flt) in open_subs.items() if flt == F1)
    if sorted(live) != want_live:
        return "live event delivered under %r, open matching subscriptions are %r (messages %r, limit %d)" % (
            sorted(live), want_live, msgs, limit)
    ok2 = [f for f in conn2.frames() if f[0] == "OK"]
    if len(ok2) != 1 or ok2[0][2] is not True:
        return "submitter got %r" % (conn2.frames(),)
    if MODE == 1 and len(store.clients) != 0:
        return "registry keeps %d clients after both disconnected" % len(store.clients)
    return "ok" if msgs else "ok-trivial"


async def _join(task):
    return await task


class _Env:
    """an empty LMDB environment for LMDBStorage.add_event's duplicate lookup"""

    def begin(self, **kw):
        import lmdb
        return lmdb.open().begin(**kw)


class _Stream:
    """what conn.stream(query) yields: rows arrive one per loop pass; the k-th one raises (symbolic)"""

    def __init__(self, loop, rows, fail_at):
        self.loop, self.rows, self.fail_at, self.i = loop, rows, fail_at, 0

    async def __aenter__(self):
        return self

    async def __aexit__(self, *a):
        return False

    def __aiter__(self):
        return self

    async def __anext__(self):
        await self.loop.sleep(0)
        if self.i == self.fail_at:
            raise RuntimeError("engine error while streaming")
        if self.i >= len(self.rows):
            raise StopAsyncIteration
        self.i += 1
        return self.rows[self.i - 1]


@obligation(funcs=["storage.db.Subscription.run_query", "storage.db.DBStorage.run_query"], timeout=(200, 900),
            bounds="the REAL SQL stored-query task over a streaming result of 0-2 rows: it ends normally, the engine raises at a "
                   "symbolic row, or the task is cancelled (CLOSE / replacement / disconnect) after a symbolic number of loop "
                   "passes; <=3 such queries in a row with 2 query slots: the (sub_id, None) sentinel is queued exactly once "
                   "unless cancelled, and the query slot is always released")
def ob_sql_query_epilogue(nrows: int, fail_at: int, cancel_after: int, rounds: int) -> str:
    """
    pre: 0 <= nrows <= 2 and -1 <= fail_at <= 2 and -1 <= cancel_after <= 3 and 1 <= rounds <= 3
    post: _.startswith("ok")
    """
    logging.disable(logging.CRITICAL)
    import types
    from harness import _sqlstore as S
    from nostr_relay.storage import db as D
    from envmodel.fake_asyncio import Semaphore
    loop = Loop()
    C.install(loop)
    D.asyncio = loop.namespace()
    st = S.make_store()
    st.query_slot = Semaphore(2)
    st.check_output = None
    row = (bytes.fromhex(C.ID2), 5, 1, bytes.fromhex(C.PK), [], bytes.fromhex(C.SIG), "c")

    class _Conn:
        def stream(self_, query):
            return _Stream(loop, [row] * nrows, fail_at)

    class _Ctx:
        async def __aenter__(self_):
            return _Conn()

        async def __aexit__(self_, *a):
            return False

    st.db.connect = lambda: _Ctx()
    for r in range(rounds):
        q = loop.namespace().Queue()
        sub = D.Subscription.__new__(D.Subscription)
        sub.storage, sub.sub_id, sub.queue, sub.query, sub.filters = st, "s", q, "SELECT", []
        sub.client_id, sub.auth_token, sub.is_postgres = "c", {}, False
        task = loop.create_task(sub.run_query(), "query")

        async def driver():
            if cancel_after >= 0:
                for _ in range(cancel_after):
                    await loop.sleep(0)
                task.cancel()
            try:
                await task
            except C.CancelledError:
                pass

        try:
            loop.run(driver())
        except Deadlock as e:
            return "round %d: the query task is wedged (%s)" % (r, e)
        sentinels = [x for x in q.items if x == ("s", None)]
        if len(sentinels) > 1:
            return "%d sentinels queued" % len(sentinels)
        if not task.was_cancelled and cancel_after < 0 and len(sentinels) != 1:
            return "query ended (rows=%d, engine error at %d) without queueing the EOSE sentinel" % (nrows, fail_at)
        if st.query_slot.acquired != 0:
            return "round %d: query slot not released (%d held) after %s" % (
                r, st.query_slot.acquired, "cancellation" if cancel_after >= 0 else "the query")
    return "ok"


@obligation(funcs=["storage.kv.Subscription.run_query"], timeout=(200, 900),
            bounds="the REAL LMDB stored-query task over an executor that yields 0-2 plan results and then ends, raises (symbolic "
                   "position) or is cancelled after a symbolic number of loop passes: exactly one sentinel is queued in every case "
                   "in which the task body ran, after the events")
def ob_kv_query_epilogue(nplans: int, fail_at: int, cancel_after: int) -> str:
    """
    pre: 0 <= nplans <= 2 and -1 <= fail_at <= 2 and -1 <= cancel_after <= 3
    post: _.startswith("ok")
    """
    logging.disable(logging.CRITICAL)
    from nostr_relay.storage import kv
    loop = Loop()
    C.install(loop)
    st = C.Store(loop)
    st.query_pool = None

    async def executor(env, plans, pool, **kw):
        for i in range(nplans):
            await loop.sleep(0)
            if i == fail_at:
                raise RuntimeError("executor failed")
            yield ("plan%d" % i, [C.STORED[i]])
        if fail_at >= nplans:
            await loop.sleep(0)

    kv.executor = executor
    kv.analyze = lambda *a, **k: None
    q = loop.namespace().Queue()
    sub = kv.Subscription(st, "s", [], queue=q, client_id="c", auth_token={})
    sub.query = kv.QueryPlans()
    task = loop.create_task(sub.run_query(), "query")

    async def driver():
        if cancel_after >= 0:
            for _ in range(cancel_after):
                await loop.sleep(0)
            task.cancel()
        try:
            await task
        except C.CancelledError:
            pass

    try:
        loop.run(driver())
    except Deadlock as e:
        return "query task wedged: %s" % e
    sentinels = [i for i, x in enumerate(q.items) if x == ("s", None)]
    started = task.waiting is not None or task.finished and not (task.was_cancelled and not q.items and cancel_after == 0)
    if len(sentinels) > 1:
        return "%d sentinels queued" % len(sentinels)
    if cancel_after != 0 and len(sentinels) != 1:
        return "query task ended (plans=%d, failure at %d, cancelled after %d) without its sentinel: %r" % (nplans, fail_at, cancel_after, q.items)
    if sentinels and sentinels[0] != len(q.items) - 1:
        return "events queued after the sentinel"
    return "ok"
