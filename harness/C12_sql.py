"""C12 (SQL backend) – the LIMIT / ORDER BY of the statement db.Subscription.build_query generates.

Real code executed: storage.db.Subscription.build_query (statement text captured, parsed by sqlmini).
Limits are drawn by symbolic selector (they are formatted into the text; the statement is concrete per path).
"""
import logging

from nostr_relay.storage.base import NostrQuery

from envmodel import sqlmini
from harness import _sqlcommon as S
from vk.ob import obligation, pick

LIMITS = (0, 1, 5, 6000, 6001, 1000000, None)   # None = the client gave no limit (pydantic default = max_limit)
MAXL = (6000, 10)


@obligation(funcs=["storage.db.Subscription.build_query"], timeout=(120, 600),
            bounds="1-2 filters with client limits by symbolic selector from {0,1,5,6000,6001,10^6,absent}, configured max_limit "
                   "from {6000, 10}, filter shape from {kinds, ids only, authors, tag}: the statement orders by created_at DESC and its LIMIT is min(n, max_limit) for a single "
                   "filter, never above max_limit; for two filters it must serve the larger of the two effective limits at most")
def ob_sql_limit(l1: int, l2: int, two: bool, m: int, shape: int) -> str:
    """
    pre: 0 <= l1 < 7 and 0 <= l2 < 7 and 0 <= m < 2
    pre: two or l2 == 0
    pre: 0 <= shape < 4
    post: _.startswith("ok")
    """
    logging.disable(logging.CRITICAL)
    maxl = pick(MAXL, m)
    n1, n2 = pick(LIMITS, l1), pick(LIMITS, l2)
    S.capture_text()
    sub = S.subscription(default_limit=maxl)

    def q(n):
        kw = dict(ids=None, authors=None, kinds=None, since=None, until=None, search=None, tags=None)
        if shape == 0:
            kw["kinds"] = [1]
        elif shape == 1:
            kw["ids"] = ["ab" * 32, "cd" * 32]       # pure id lookup
        elif shape == 2:
            kw["authors"] = ["ab" * 32]
        else:
            kw["tags"] = [("e", ["x"])]
        return NostrQuery.model_construct(limit=maxl if n is None else n, **kw)

    filters = [q(n1)] + ([q(n2)] if two else [])
    text, _ = sub.build_query(filters)
    try:
        stmt = sqlmini.parse(text)
    except sqlmini.Unsupported as e:
        return "harness-error: statement outside the modelled grammar (%s)" % e
    if stmt["order"] != "created_at DESC":
        return "no ORDER BY created_at DESC"
    eff = [min(maxl if n is None else n, maxl) for n in ([n1] + ([n2] if two else []))]
    if stmt["limit"] > maxl:
        return "LIMIT %d exceeds max_limit %d" % (stmt["limit"], maxl)
    if not two:
        if stmt["limit"] != eff[0]:
            return "client limit %r, max_limit %d: LIMIT %d (want %d)" % (n1, maxl, stmt["limit"], eff[0])
        return "ok"
    if stmt["limit"] > max(eff):
        return "two filters with effective limits %r: LIMIT %d serves more than either allows" % (eff, stmt["limit"])
    if eff[0] != eff[1] and stmt["limit"] != max(eff):
        return "two filters with effective limits %r share one LIMIT %d" % (eff, stmt["limit"])
    return "ok"
