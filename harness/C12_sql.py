"""C12 (SQL backend) – the LIMIT / ORDER BY of the statement db.Subscription.build_query generates.

Real code executed: storage.db.Subscription.build_query (statement text captured, parsed by sqlmini).
Limits are drawn by symbolic selector (they are formatted into the text; the statement is concrete per path).
"""
import logging

from nostr_relay.storage.base import NostrQuery

from envmodel import sqlmini
from harness import _sqlcommon as S
from vk.ob import obligation, pick

LIMITS = (0, 1, 5, 6000, 6001, 1000000, None)   # None = the client gave no limit (pydantic default = max_limit)
MAXL = (6000, 10)


@obligation(funcs=["storage.db.Subscription.build_query"], timeout=(120, 600),
            bounds="1-2 filters with client limits by symbolic selector from {0,1,5,6000,6001,10^6,absent}, configured max_limit "
                   "from {6000, 10}, filter shape from {kinds, ids only, authors, tag}: the statement orders by created_at DESC and its LIMIT is min(n, max_limit) for a single "
                   "filter, never above max_limit; for two filters it must serve the larger of the two effective limits at most")
def ob_sql_limit(l1: int, l2: int, two: bool, m: int, shape: int) -> str:
    """
    pre: 0 <= l1 < 7 and 0 <= l2 < 7 and 0 <= m < 2
    pre: two or l2 == 0
    pre: 0 <= shape < 4
    post: _.startswith("ok")
    """
    logging.disable(logging.CRITICAL)
    maxl = pick(MAXL, m)
    n1, n2 = pick(LIMITS, l1), pick(LIMITS, l2)
    S.capture_text()
    sub = S.subscription(default_limit=maxl)

    def q(n):
        kw = dict(ids=None, authors=None, kinds=None, since=None, until=None, search=None, tags=None)
        if shape == 0:
            kw["kinds"] = [1]
        elif shape == 1:
            kw["ids"] = ["ab" * 32, "cd" * 32]       # pure id lookup
        elif shape == 2:
            kw["authors"] = ["ab" * 32]
        else:
            kw["tags"] = [("e", ["x"])]
        return NostrQuery.model_construct(limit=maxl if n is None else n, **kw)

    filters = [q(n1)] + ([q(n2)] if two else [])
    text, _ = sub.build_query(filters)
    text = text.rendered() if hasattr(text, "rendered") else text
    try:
        stmt = sqlmini.parse(text)
    except sqlmini.Unsupported as e:
        return "harness-error: statement outside the modelled grammar (%s)" % e
    if stmt["order"] != "created_at DESC":
        return "no ORDER BY created_at DESC"
    eff = [min(maxl if n is None else n, maxl) for n in ([n1] + ([n2] if two else []))]
    if stmt["limit"] > maxl:
        return "LIMIT %d exceeds max_limit %d" % (stmt["limit"], maxl)
    if not two:
        if stmt["limit"] != eff[0]:
            return "client limit %r, max_limit %d: LIMIT %d (want %d)" % (n1, maxl, stmt["limit"], eff[0])
        return "ok"
    if stmt["limit"] > max(eff):
        return "two filters with effective limits %r: LIMIT %d serves more than either allows" % (eff, stmt["limit"])
    if eff[0] != eff[1] and stmt["limit"] != max(eff):
        return "two filters with effective limits %r share one LIMIT %d" % (eff, stmt["limit"])
    return "ok"


@obligation(funcs=["storage.db.Subscription.build_query"], timeout=(120, 600),
            bounds="two REQs in one process with the same conditions and different limits (selectors): the second statement carries "
                   "the second REQ's limit (no state is carried between statements)")
def ob_sql_limit_two_requests(l1: int, l2: int, shape: int) -> str:
    """
    pre: 0 <= l1 < 6 and 0 <= l2 < 6 and 0 <= shape < 2
    post: _.startswith("ok")
    """
    logging.disable(logging.CRITICAL)
    from vk.ob import fresh_module_state
    from nostr_relay.storage import db as D
    fresh_module_state(D)
    for k, v in list(vars(D.Subscription).items()):
        if type(v) in (dict, list, set) and not k.startswith("__"):
            v.clear()            # class-level caches
    S.capture_text()
    out = []
    for n in (pick(LIMITS, l1), pick(LIMITS, l2)):
        sub = S.subscription(default_limit=6000)
        kw = dict(ids=None, authors=None, kinds=[1] if shape == 0 else None, since=None, until=None, search=None,
                  tags=[("e", ["x"])] if shape == 1 else None)
        text, _ = sub.build_query([NostrQuery.model_construct(limit=n, **kw)])
        text = text.rendered() if hasattr(text, "rendered") else text
        try:
            out.append(sqlmini.parse(text)["limit"])
        except sqlmini.Unsupported as e:
            return "harness-error: statement outside the modelled grammar (%s)" % e
    want = [min(pick(LIMITS, l1), 6000), min(pick(LIMITS, l2), 6000)]
    if out != want:
        return "limits %r then %r produced LIMIT %r" % (pick(LIMITS, l1), pick(LIMITS, l2), out)
    return "ok" if want[0] != want[1] else "ok-same"
