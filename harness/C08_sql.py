"""C08 (SQL backend) – NIP-09 deletion applied by the REAL DBStorage.add_event / process_tags on the in-memory
engine model; oracle refs/effects.py."""
import logging
from typing import List

from harness import _sqlstore as S
from harness import _kvcommon as K
from refs import effects
from vk.ob import obligation, THOROUGH


@obligation(funcs=["storage.db.DBStorage.add_event", "storage.db.DBStorage.process_tags"], timeout=(450, 1800),
            bounds="store {e0 (author A/B), bystander e1} then a kind-5 event with <=2 tags (quick tier: pairs only among the two stored ids) by selector from {e:e0, e:e1, e:unknown, "
                   "bare e, p:e0, e:E0 upper-case}; timestamps symbolic")
def ob_sql_delete(p0: bool, t0: int, p1: bool, t1: int, p2: bool, t2: int, g: List[int]) -> str:
    """
    pre: 1 <= t0 <= 200 and 1 <= t1 <= 200 and 1 <= t2 <= 200
    pre: len(g) <= 2 and all(0 <= x < len(K.REFS) for x in g)
    pre: THOROUGH or (len(g) < 2 or (g[0] < 2 and g[1] < 2)) 
    post: _.startswith("ok")
    """
    logging.disable(logging.CRITICAL)
    st = S.make_store()
    S.drive(st.add_event(S.evj(0, p0, 1, t0, [["t", "x"]])))
    S.drive(st.add_event(S.evj(1, p1, 1, t1, [["e", S.IDS[0]]])))
    pre = S.rows(st)
    new = S.evj(2, p2, 5, t2, K._tags(K.REFS, g))
    try:
        ev, changed = S.drive(st.add_event(dict(new)))
    except Exception as e:
        return "a well-formed deletion event was refused: %r" % (e,)
    post = S.rows(st)
    err = effects.check_add(pre, new, post, accepted_means_stored=bool(changed), ephemeral_stored_ok=True)
    if err:
        return err
    err = S.tags_coherent(st)
    if err:
        return err
    return "ok" if len(post) <= len(pre) else "ok-nothing-removed"


@obligation(funcs=["web.ViewEventResource.on_get", "storage.db.DBStorage.get_event"], timeout=(120, 600),
            bounds="HTTP /e/<id>: the event is viewed (or not) before the author's deletion, then requested again: the real "
                   "ViewEventResource over the real DBStorage.get_event on the engine model")
def ob_http_view_after_delete(viewed_before: bool, own: bool) -> str:
    """
    post: _.startswith("ok")
    """
    logging.disable(logging.CRITICAL)
    import falcon
    import types
    from nostr_relay import web
    st = S.make_store()
    e0 = S.evj(0, False, 1, 10, [["t", "x"]])
    S.drive(st.add_event(dict(e0)))
    res = web.ViewEventResource(st)

    def get():
        resp = types.SimpleNamespace(media=None)
        try:
            S.drive(res.on_get(None, resp, e0["id"]))
        except falcon.HTTPNotFound:
            return None
        return resp.media

    if viewed_before and get() is None:
        return "stored event not served by /e/<id>"
    dele = S.evj(1, not own, 5, 20, [["e", e0["id"]]])
    S.drive(st.add_event(dict(dele)))
    served = get()
    if own and served is not None:
        return "/e/<id> still serves an event its author deleted (viewed before: %r)" % viewed_before
    if not own and served is None:
        return "/e/<id> lost an event after a foreign deletion request"
    return "ok"
