"""C06 / C07 / C20 (SQL backend) – acknowledgement vs. effect, atomicity under an engine fault, and
notification only after commit, for the REAL DBStorage.add_event on the in-memory engine model."""
import logging
from typing import List

from nostr_relay.errors import AuthenticationError, StorageError

from harness import _sqlstore as S
from harness import _kvcommon as K
from refs import effects
from vk.ob import obligation, pick, PARAM, THOROUGH

KINDS = (1, 0, 5, 30000, 20000, 10000)


@obligation(funcs=["storage.db.DBStorage.add_event", "storage.db.DBStorage.pre_save", "storage.db.DBStorage.post_save",
                   "storage.db.DBStorage.process_tags"],
            timeout=(450, 1500), params=range(3),
            bounds="PARAM 0: duplicate, 1: fresh event with permission, 2: without permission.  store {e0}; submission of e1 (fresh id or e0's id again = duplicate) with kind by selector from {1,0,5,30000,"
                   "20000,10000}, author/created_at symbolic, <=1 tag from the 10 general shapes + d/e references; save permission "
                   "symbolic")
def ob_sql_ack(p0: bool, t0: int, k0: int, p1: bool, t1: int, k1: int, g: List[int]) -> str:
    """
    pre: 1 <= t0 <= 200 and 1 <= t1 <= 200 and 0 <= k0 < 6 and 0 <= k1 < 6
    pre: len(g) <= 1 and all(0 <= x < len(K.GEN) for x in g)
    pre: PARAM != 0 or (p1 == p0 and t1 == t0 and k1 == k0 and not g)
    pre: THOROUGH or (not p0 and (k0 == k1 or k0 == 0) and all(x < 4 for x in g))
    pre: PARAM != 2 or (k0 == 0 and k1 == 0 and not g)
    post: _.startswith("ok")
    """
    logging.disable(logging.CRITICAL)
    dup = PARAM == 0
    can = PARAM != 2
    st = S.make_store()
    e0 = S.evj(0, p0, pick(KINDS, k0), t0, [])
    S.drive(st.add_event(dict(e0)))
    pre = S.rows(st)
    st.broadcasts[:] = []
    st.announced[:] = []
    st.authenticator.can = can
    new = dict(e0) if dup else S.evj(1, p1, pick(KINDS, k1), t1, K._tags(K.GEN, g))
    try:
        ev, changed = S.drive(st.add_event(dict(new)))
        outcome = "true" if changed else "false"
    except AuthenticationError:
        outcome = "restricted"
    except StorageError:
        outcome = "refused"
    except Exception as e:
        outcome = "exception %r" % (e,)
    post = S.rows(st)
    if st.db.open_txns != 0 or st.add_slot.acquired != 0:
        return "transaction / insert slot left open"
    if any(depth != 0 for (_, depth) in st.broadcasts + st.announced):
        return "event pushed to subscribers / announced to other workers before its transaction was committed"
    if outcome != "true":
        if [r["id"] for r in post] != [r["id"] for r in pre] or st.broadcasts or st.announced:
            return "submission answered %s but left a trace: stored %r broadcast %r" % (outcome, [r["id"][-2:] for r in post], st.broadcasts)
        if not can and outcome != "restricted":
            return "save denied but outcome %s" % outcome
        if can and not dup and outcome.startswith("exception"):
            return "a well-formed event was refused: %s" % outcome
        if can and not dup and outcome == "false":
            return "a fresh event was reported as duplicate"
        if (dup and can and outcome == "false") or (not can and outcome == "restricted"):
            return "ok"
        return "ok-" + outcome.split()[0]
    if not can:
        return "accepted without the save permission"
    if dup:
        return "duplicate acknowledged with OK true"
    err = effects.check_add(pre, new, post, ephemeral_stored_ok=True)
    if err:
        return err
    if [b[0] for b in st.broadcasts] != [new["id"]] or [b[0] for b in st.announced] != [new["id"]]:
        return "accepted event broadcast %r / announced %r" % (st.broadcasts, st.announced)
    return "ok"


@obligation(funcs=["storage.db.DBStorage.add_event", "storage.db.DBStorage.post_save", "storage.db.DBStorage.process_tags"],
            timeout=(350, 1200),
            bounds="SQL: sequences of <=4 submissions by symbolic selector from {E, D (kind 5 by the same author referencing E), E2 "
                   "(another regular event)}: a submission answered as a duplicate changes nothing; an event answered OK true is "
                   "retrievable until a later ACCEPTED deletion removes it")
def ob_sql_resubmit_sequence(seq: List[int]) -> str:
    """
    pre: 1 <= len(seq) <= 4 and all(0 <= x < 3 for x in seq)
    post: _.startswith("ok")
    """
    logging.disable(logging.CRITICAL)
    st = S.make_store()
    E = S.evj(0, False, 1, 10, [["t", "x"]])
    D = S.evj(1, False, 5, 20, [["e", S.IDS[0]]])
    E2 = S.evj(2, False, 1, 30, [])
    nontrivial = False
    for x in seq:
        ev = dict((E, D, E2)[x])
        before = sorted(r["id"] for r in S.rows(st))
        try:
            _, changed = S.drive(st.add_event(ev))
        except Exception as e:
            return "submission %d refused with %r" % (x, e)
        after = sorted(r["id"] for r in S.rows(st))
        if not changed:
            nontrivial = True
            if ev["id"] not in before:
                return "event %s answered 'duplicate' although the relay does not hold it (sequence %r)" % (ev["id"][-2:], seq)
            if after != before:
                return "a submission answered 'duplicate' changed the store from %r to %r (sequence %r)" % (
                    [i[-2:] for i in before], [i[-2:] for i in after], seq)
        else:
            if ev["id"] not in after:
                return "event answered OK true is not stored (sequence %r)" % (seq,)
    return "ok" if nontrivial else "ok-nodup"
