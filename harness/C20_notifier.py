"""C20 – cross-worker notifier: ids arrive intact, once, in order, however the byte stream is chunked.

Real code executed: notifier.NotifyClient.{connect, notify}, notifier.NotifyServer.handle_notify,
storage.base.BaseStorage.notify_other_processes.  `asyncio` inside nostr_relay.notifier is replaced
by a fake whose StreamReader delivers the peer's bytes in chunks of *symbolic* sizes (read(n) returns
what has arrived, at most n; readexactly(n) is built on it per the asyncio contract and raises
IncompleteReadError at EOF); tasks are coroutines stepped by a scheduler whose choices are symbolic.
"""
import logging
import types
from typing import List

from nostr_relay import notifier as N
from vk.ob import obligation, pick, THOROUGH

ID1, ID2, ID3 = bytes([0x11]) * 32, bytes([0x22]) * 32, bytes([0x33]) * 32


class IncompleteReadError(EOFError):
    def __init__(self, partial, expected):
        super().__init__("%d bytes read on a total of %r expected bytes" % (len(partial), expected))
        self.partial = partial
        self.expected = expected


class CancelledError(BaseException):
    pass


@types.coroutine
def _suspend():
    yield "suspend"


class Reader:
    """bytes arrive in chunks; `avail` counts the bytes that have arrived so far"""

    def __init__(self, data, chunks, eof_at=None):
        self.data = data if eof_at is None else data[:eof_at]
        self.chunks = list(chunks)
        self.pos = 0
        self.avail = 0
        self.closed = False
        self.blocking = False  # True: suspend to the scheduler when nothing has arrived (server harness)

    def _arrive(self):
        if self.avail < len(self.data):
            step = self.chunks.pop(0) if self.chunks else len(self.data)
            self.avail = min(len(self.data), self.avail + step)

    async def read(self, n):
        if self.pos == self.avail:
            if self.blocking:
                await _suspend()
            self._arrive()
        while self.blocking and self.pos == self.avail and not self.closed:
            await _suspend()  # connection stays open: wait for more data / disconnect
        if self.pos == self.avail:
            return b""  # EOF
        end = min(self.avail, self.pos + n)
        out = self.data[self.pos:end]
        self.pos = end
        return out

    async def readexactly(self, n):
        buf = b""
        while len(buf) < n:
            part = await self.read(n - len(buf))
            if not part:
                raise IncompleteReadError(buf, n)
            buf += part
        return buf


class Writer:
    def __init__(self, name):
        self.name = name
        self.written = []
        self.closed = False

    def get_extra_info(self, what):
        return self.name

    def write(self, data):
        self.written.append(bytes(data))

    async def drain(self):
        return None

    def close(self):
        self.closed = True


def _fake_asyncio(reader=None, writer=None):
    ns = types.SimpleNamespace()
    ns.exceptions = types.SimpleNamespace(CancelledError=CancelledError)
    ns.CancelledError = CancelledError
    ns.IncompleteReadError = IncompleteReadError

    async def sleep(t):
        return None

    async def open_connection(addr, port):
        return reader, writer

    ns.sleep = sleep
    ns.open_connection = open_connection
    return ns


def _drive(coro):
    try:
        coro.send(None)
    except StopIteration as e:
        return e.value
    raise RuntimeError("suspended")


class _Storage:
    def __init__(self, known):
        self.known = known
        self.looked_up = []
        self.fanned_out = []

    async def get_event(self, hexid):
        self.looked_up.append(hexid)
        return types.SimpleNamespace(id=hexid) if hexid in self.known else None

    async def notify_all_connected(self, event):
        self.fanned_out.append(event.id)


SIZES = (1, 31, 32, 33, 64)
CUTS = (-1, 0, 1, 31, 32, 33, 63)
NCH = 3 if THOROUGH else 2


@obligation(funcs=["notifier.NotifyClient.connect"], timeout=(150, 900),
            bounds="stream of k<=2 ids (32 bytes each) delivered in <=2 (thorough 3) chunks whose sizes are drawn by symbolic "
                   "selector from {1,31,32,33,64} (the rest arrives in one piece), optional disconnect of the peer at an "
                   "offset from {none,0,1,31,32,33,63}; id 2 is unknown to the local store")
def ob_client_framing(k: int, csel: List[int], cutsel: int) -> str:
    """
    pre: 1 <= k <= 2 and len(csel) <= NCH and all(0 <= c < 5 for c in csel)
    pre: 0 <= cutsel < 7
    post: _.startswith("ok")
    """
    chunks = [pick(SIZES, c) for c in csel]
    cut = pick(CUTS, cutsel)
    logging.disable(logging.CRITICAL)
    ids = [ID1, ID2, ID3][:k]
    data = b"".join(ids)
    eof_at = None if cut < 0 or cut >= len(data) else cut
    reader = Reader(data, chunks, eof_at)
    N.asyncio = _fake_asyncio(reader, Writer("srv"))
    st = _Storage({ID1.hex(), ID3.hex()})
    client = N.NotifyClient(st)
    _drive(client.connect())
    complete = k if eof_at is None else eof_at // 32
    want = [i.hex() for i in ids[:complete]]
    if st.looked_up != want:
        return "looked up %r, peer announced %r (chunks %r, cut %r)" % (
            [x[:6] + ".." for x in st.looked_up], [x[:4] for x in want], chunks, eof_at)
    want_fan = [h for h in want if h in st.known]
    if st.fanned_out != want_fan:
        return "fanned out %r, want %r" % (st.fanned_out, want_fan)
    return "ok" if (chunks and k > 0) else "ok-trivial"


@obligation(funcs=["notifier.NotifyServer.handle_notify"], timeout=(350, 1200),
            bounds="two senders each announcing one id that arrives in two chunks (split offsets by symbolic selector from "
                   "{1,16,31}), one idle receiver; the order in which the two connection handlers are resumed is a symbolic "
                   "schedule of <=6 steps (then first-ready)")
def ob_server_relay(s1: int, s2: int, sched: List[bool]) -> str:
    """
    pre: 0 <= s1 < 3 and 0 <= s2 < 3 and len(sched) <= 6
    post: _.startswith("ok")
    """
    split1 = pick((1, 16, 31), s1)
    split2 = pick((1, 16, 31), s2)
    logging.disable(logging.CRITICAL)
    N.asyncio = _fake_asyncio()
    srv = N.NotifyServer()
    r1, w1 = Reader(ID1, [split1, 32 - split1]), Writer("p1")
    r2, w2 = Reader(ID2, [split2, 32 - split2]), Writer("p2")
    r1.blocking = r2.blocking = True
    w3 = Writer("p3")
    srv.connections["p3"] = w3
    tasks = [srv.handle_notify(r1, w1), srv.handle_notify(r2, w2)]
    done = [False, False]
    # both handlers register themselves first (a connection is accepted before data flows)
    for i in (0, 1):
        try:
            tasks[i].send(None)
        except StopIteration:
            done[i] = True
    steps = list(sched)
    guard = 0
    readers = (r1, r2)

    def idle(i):
        return done[i] or (readers[i].pos == len(readers[i].data) and readers[i].avail == len(readers[i].data))

    while not (idle(0) and idle(1)) and guard < 40:
        guard += 1
        pick_first = steps.pop(0) if steps else True
        i = 0 if (pick_first and not idle(0)) or idle(1) else 1
        try:
            tasks[i].send(None)
        except StopIteration:
            done[i] = True
    # everything announced has been relayed; now both workers disconnect
    r1.closed = r2.closed = True
    for i in (0, 1):
        for _ in range(4):
            if done[i]:
                break
            try:
                tasks[i].send(None)
            except StopIteration:
                done[i] = True
    if not (done[0] and done[1]):
        return "handlers did not finish"
    got3 = b"".join(w3.written)
    frames = [got3[i:i + 32] for i in range(0, len(got3), 32)]
    if sorted(frames) != sorted([ID1, ID2]):
        return "receiver saw frames %r (splits %d/%d, schedule %r)" % ([f.hex()[:8] + "/" + str(len(f)) for f in frames], split1, split2, sched)
    if b"".join(w1.written) != ID2 or b"".join(w2.written) != ID1:
        return "sender 1 got %r, sender 2 got %r" % (b"".join(w1.written).hex()[:8], b"".join(w2.written).hex()[:8])
    if set(srv.connections) != {"p3"}:
        return "connections not cleaned up: %r" % (sorted(srv.connections),)
    return "ok"


@obligation(funcs=["storage.base.BaseStorage.notify_other_processes", "notifier.NotifyClient.notify"], timeout=(60, 300),
            bounds="notifier enabled or not (symbolic); one accepted event")
def ob_announce(enabled: bool) -> str:
    """
    post: _.startswith("ok")
    """
    logging.disable(logging.CRITICAL)
    from nostr_relay.storage import base as B
    created = []

    class FA:
        @staticmethod
        def create_task(coro):
            created.append(coro)
            return coro

    B.asyncio = FA
    st = object.__new__(B.BaseStorage)
    st._notify_sub_tasks = []
    w = Writer("srv")
    if enabled:
        st.notifier = N.NotifyClient(st)
        st.notifier.writer = w
    else:
        st.notifier = None
    ev = types.SimpleNamespace(id=ID1.hex(), id_bytes=ID1)
    _drive(st.notify_other_processes(ev))
    for c in created:
        _drive(c)
    sent = b"".join(w.written)
    if enabled and sent != ID1:
        return "announced %r for one accepted event" % (sent.hex(),)
    if not enabled and (sent or created):
        return "announced although the notifier is off"
    return "ok" if enabled else "ok-off"


@obligation(funcs=["notifier.NotifyServer.handle_notify"], timeout=(150, 900),
            bounds="one sender announces ID1 and then disconnects after `cut` bytes of ID2 (cut from {0,1,16,31} by selector); "
                   "its bytes arrive in <=2 chunks with sizes by selector from {1,31,32,33,48,64}; one receiver")
def ob_server_sender_disconnects(cutsel: int, csel: List[int]) -> str:
    """
    pre: 0 <= cutsel < 4 and len(csel) <= 2 and all(0 <= c < 6 for c in csel)
    post: _.startswith("ok")
    """
    logging.disable(logging.CRITICAL)
    N.asyncio = _fake_asyncio()
    srv = N.NotifyServer()
    cut = pick((0, 1, 16, 31), cutsel)
    data = ID1 + ID2[:cut]
    r1, w1 = Reader(data, [pick((1, 31, 32, 33, 48, 64), c) for c in csel]), Writer("p1")
    w3 = Writer("p3")
    srv.connections["p3"] = w3
    _drive(srv.handle_notify(r1, w1))
    got = b"".join(w3.written)
    if got != ID1:
        return "receiver got %d bytes (%s..) for one complete id followed by %d stray bytes" % (len(got), got.hex()[:8], cut)
    if set(srv.connections) != {"p3"}:
        return "connections not cleaned up: %r" % (sorted(srv.connections),)
    return "ok"


@obligation(funcs=["storage.db.DBStorage.add_event", "storage.base.BaseStorage.notify_other_processes"], timeout=(150, 600),
            bounds="SQL backend: an event of kind from {1,0,5,30000} (selector) accepted next to a stored one: the announcement to "
                   "other workers happens exactly once and only after the transaction that stores it has been committed (a "
                   "receiving worker looks the id up in the shared database); a duplicate is not announced")
def ob_announce_after_commit(ksel: int, dup: bool) -> str:
    """
    pre: 0 <= ksel < 4
    post: _.startswith("ok")
    """
    logging.disable(logging.CRITICAL)
    from harness import _sqlstore as S
    st = S.make_store()
    kind = pick((1, 0, 5, 30000), ksel)
    e0 = S.evj(0, False, kind if kind != 5 else 1, 5, [["d", "a"]])
    S.drive(st.add_event(dict(e0)))
    st.announced[:] = []
    new = dict(e0) if dup else S.evj(1, False, kind, 9, [["d", "a"], ["e", S.IDS[0]]])
    S.drive(st.add_event(dict(new)))
    if dup:
        return "ok" if not st.announced else "a duplicate was announced to the other workers"
    if [a[0] for a in st.announced] != [new["id"]]:
        return "announced %r for one accepted event" % (st.announced,)
    if st.announced[0][1] != 0:
        return "id announced to other workers while its transaction was still open (they cannot load the event yet)"
    return "ok"
