"""C03 – only authentic events pass admission.

Real code executed: nostr_relay.validators.is_signed, aionostr.event.Event.{__init__, verify,
compute_id}.  secp256k1 and SHA-256 are FFI: `PublicKey` and `sha256` in aionostr.event are
replaced by an oracle whose answers are chosen by the solver (DESIGN §3.5); `dumps` is replaced
by a recorder so that the *objects* handed to the hash can be compared with the event's fields.

ob_id_binding:   is_signed returns normally  =>  event.id is the (oracle) hash of the event's own
                 pubkey/created_at/kind/tags/content, the signature oracle accepted (sig, that
                 hash) under the event's pubkey, and every delegation tag was accepted.
ob_wellformed:   whatever passes is_signed has an int created_at >= 0, lowercase hex id/pubkey/sig of
                 the right length and tags that are a list of non-empty lists named by a string (the
                 repo's own tests store non-string tag *values*, e.g. ["expiration", 1672329427], so
                 those stay admissible and C04 demands that they are served verbatim).
"""
import logging
from typing import List

import aionostr.event as AE
from nostr_relay import validators
from nostr_relay.errors import StorageError
from envmodel.crypto_oracle import CryptoOracle, Blob
from vk.ob import obligation, pick, fresh_module_state

H1 = "ab" * 32          # the oracle's hash of the event serialization
H2 = "cd" * 32          # the oracle's hash of anything else (delegation strings, ...)
IDS = (H1, H2, H1.upper(), "AB" + H1[2:], H1[:62], "", None, 5)
PK1, PK2 = "11" * 32, "22" * 32
SIG = "33" * 64


class Oracle(CryptoOracle):
    """key validity and the answers of successive verify() calls are chosen by the solver; the hash of an
    event serialization (a Blob) is H1, the hash of anything else (delegation strings) is H2"""

    def __init__(self, key_ok, answers):
        super().__init__()
        self.key_ok = key_ok
        self.answers = list(answers)

    def key_valid(self, raw):
        return self.key_ok

    def answer(self, raw, sig, msg):
        return self.answers.pop(0) if self.answers else False

    def digest_of(self, blob):
        return H1 if isinstance(blob, Blob) else H2


def _same_fields(data, ev):
    return (isinstance(data, list) and len(data) == 6 and data[0] == 0 and data[1] is ev.pubkey
            and data[2] is ev.created_at and data[3] is ev.kind and data[4] is ev.tags and data[5] is ev.content)


@obligation(funcs=["validators.is_signed", "aionostr.event.Event.verify", "aionostr.event.Event.compute_id"],
            timeout=(120, 600),
            bounds="id from 8 representatives (the hash, another hash, upper/mixed case, short, empty, None, int) by "
                   "symbolic selector; signature oracle, key validity and up to 2 delegation-tag oracles symbolic; "
                   "0-2 delegation tags; kind/created_at symbolic ints")
def ob_id_binding(idsel: int, key_ok: bool, v0: bool, v1: bool, v2: bool, ndeleg: int, kind: int, ts: int) -> str:
    """
    pre: 0 <= idsel < 8 and 0 <= ndeleg <= 2
    pre: 0 <= kind < 65536 and 1 <= ts < 4294967296
    post: _.startswith("ok")
    """
    logging.disable(logging.CRITICAL)
    fresh_module_state(validators)
    orc = Oracle(key_ok, [v0, v1, v2])
    orc.install()
    tags = [["e", "x"]] + [["delegation", PK2, "kind=1", SIG] for _ in range(ndeleg)]
    ev = AE.Event(pubkey=PK1, content="hi", created_at=ts, kind=kind, tags=tags, id=pick(IDS, idsel), sig=SIG)
    try:
        validators.is_signed(ev, None)
    except StorageError:
        return "ok-rejected"
    except Exception:
        return "ok-rejected-exception"
    # accepted: everything the property demands must hold
    if ev.id != H1:
        return "accepted although id %r is not the hash %r of the event" % (ev.id, H1)
    ser = [d for d in orc.dumped if _same_fields(d, ev)]
    if not ser:
        return "accepted but the hash was never computed over the event's own fields: %r" % (orc.dumped,)
    main = [c for c in orc.verify_calls if c[0] == bytes.fromhex(PK1) and c[1] == bytes.fromhex(SIG) and c[2] == bytes.fromhex(H1)]
    if not main or not all(c[3] for c in main):
        return "accepted without a valid signature of the id under the event's pubkey: %r" % (orc.verify_calls,)
    deleg = [c for c in orc.verify_calls if c[0] == bytes.fromhex(PK2)]
    if len(deleg) < ndeleg or not all(c[3] for c in deleg):
        return "accepted with %d delegation tags but delegation checks were %r" % (ndeleg, deleg)
    return "ok"


_TS = (1700000000, "1700000000", 1700000000.5, True, -1)
_TAGS = ([["e", "x"]], [], ["ab"], [["e", 1]], [["e", None]], [["e", ["n"]]], [[]], "ab", None, [[1, "x"]], {"e": "x"}, [[None]], [["e"], 5])
_HEX = (PK1, PK1.upper(), "zz" * 32, PK1[:62], "")


@obligation(funcs=["validators.is_signed", "aionostr.event.Event.__init__", "aionostr.event.Event.verify"],
            timeout=(180, 600),
            bounds="type-confused fields by symbolic selectors: created_at from {int, digit string, float, True, "
                   "negative}, tags from 13 shapes (strings only / empty / list of str / int, null, nested items / empty tag "
                   "/ str / null / non-string tag name / dict / mixed), pubkey and sig from {lower, upper, non-hex, short, empty}; "
                   "(kind is coerced by int() in Event() and then hashed in coerced form: covered by ob_id_binding); the crypto oracle accepts everything and returns the supplied id as hash")
def ob_wellformed(tsel: int, tagsel: int, pksel: int, sigsel: int) -> str:
    """
    pre: 0 <= tsel < 5 and 0 <= tagsel < 13 and 0 <= pksel < 5 and 0 <= sigsel < 5
    post: _.startswith("ok")
    """
    logging.disable(logging.CRITICAL)
    fresh_module_state(validators)
    orc = Oracle(True, [True] * 8)
    orc.install()
    sig = pick(_HEX, sigsel) * 2
    try:
        ev = AE.Event(pubkey=pick(_HEX, pksel), content="hi", created_at=pick(_TS, tsel), kind=1,
                      tags=pick(_TAGS, tagsel), id=H1, sig=sig)
    except Exception:
        return "ok-rejected-constructor"
    given_ts = pick(_TS, tsel)
    try:
        validators.is_signed(ev, None)
    except StorageError:
        return "ok-rejected"
    except Exception:
        return "ok-rejected-exception"
    if type(ev.created_at) is not int or ev.created_at < 0:
        return "accepted created_at=%r" % (ev.created_at,)
    t = ev.tags
    if not (isinstance(t, list) and all(isinstance(x, list) and len(x) >= 1 and isinstance(x[0], str) for x in t)):
        return "accepted tags=%r" % (t,)
    for name, val, n in (("pubkey", ev.pubkey, 64), ("sig", ev.sig, 128), ("id", ev.id, 64)):
        if not (isinstance(val, str) and len(val) == n and all(c in "0123456789abcdef" for c in val)):
            return "accepted %s=%r" % (name, val)
    return "ok"


class SigOracle(CryptoOracle):
    """only (PK1, SIG, H1) is a valid signature; the hash of the event serialization is H1"""

    def answer(self, raw, sig, msg):
        return raw == bytes.fromhex(PK1) and sig == bytes.fromhex(SIG) and msg == bytes.fromhex(H1)

    def digest_of(self, blob):
        return H1 if isinstance(blob, Blob) else H2


@obligation(funcs=["validators.is_signed"], timeout=(120, 600),
            bounds="two submissions through the same process: the genuine event first (accepted), then an event with the same "
                   "id and fields whose sig / delegation tag was replaced (symbolic choices); the oracle accepts only the "
                   "genuine signature")
def ob_second_submission(bad_sig: bool, add_deleg: bool, other_pubkey: bool) -> str:
    """
    post: _.startswith("ok")
    """
    logging.disable(logging.CRITICAL)
    fresh_module_state(validators)
    SigOracle().install()
    ev = AE.Event(pubkey=PK1, content="hi", created_at=1700000000, kind=1, tags=[["e", "x"]], id=H1, sig=SIG)
    try:
        validators.is_signed(ev, None)
    except Exception as e:
        return "genuine event refused: %r" % (e,)
    tags = [["e", "x"]] + ([["delegation", PK2, "kind=1", "44" * 64]] if add_deleg else [])
    ev2 = AE.Event(pubkey=PK2 if other_pubkey else PK1, content="hi", created_at=1700000000, kind=1, tags=tags, id=H1,
                   sig=("55" * 64) if bad_sig else SIG)
    forged = bad_sig or add_deleg or other_pubkey
    try:
        validators.is_signed(ev2, None)
    except StorageError:
        return "ok" if forged else "verbatim resubmission refused by is_signed"
    except Exception:
        return "ok" if forged else "verbatim resubmission crashed is_signed"
    if forged:
        return "after the genuine event was seen, a copy with bad_sig=%r forged_delegation=%r other_pubkey=%r passed is_signed" % (
            bad_sig, add_deleg, other_pubkey)
    return "ok-verbatim"
