"""C08 – NIP-09 deletions on the LMDB backend: only the author's own referenced events are removed.

Real code executed: storage.kv.WriterThread.{run, _post_save (kind-5 branch), _delete_event},
PubkeyIndex scanner, bytes_from_hex – on the lmdb contract model.  Oracle: refs/effects.py.
"""
import logging
from typing import List

from envmodel import kvworld as W
from harness import _kvcommon as K
from refs import effects
from vk.ob import obligation, PARAM, THOROUGH, pick


@obligation(funcs=["storage.kv.WriterThread._post_save", "storage.kv.WriterThread._delete_event", "storage.kv.Index.scanner",
                   "storage.kv.bytes_from_hex"],
            timeout=(450, 1800),
            bounds="store {e0 (regular, author A or B), e2 (regular, other id, author by bool)} then a kind-5 event by A or B with "
                   "<=2 e/p tags by selector from {e:e0, e:e2.., e:unknown/non-hex, bare e, p:e0, e:E0 upper-case}; created_at of "
                   "all three symbolic 1..200 (older, equal and newer than the deletion; in the quick tier the bystander shares e0's timestamp and e0's author is fixed)")
def ob_delete_step(p0: bool, t0: int, p2: bool, t2: int, p1: bool, t1: int, g1: List[int]) -> str:
    """
    pre: 1 <= t0 <= 200 and 1 <= t1 <= 200 and 1 <= t2 <= 200
    pre: not p0 and (t2 == t0 or (THOROUGH and t2 == t1))
    pre: len(g1) < 2 or g1[1] < 3
    pre: len(g1) <= (2 if THOROUGH else 1) and all(0 <= g < len(K.REFS) for g in g1)
    post: _.startswith("ok")
    """
    logging.disable(logging.CRITICAL)
    e0 = W.make_event(0, 1 if p0 else 0, 1, t0, [])
    e2 = W.make_event(1, 1 if p2 else 0, 1, t2, [["e", W.IDS[0]]])   # a bystander that itself references e0
    dele = W.make_event(2, 1 if p1 else 0, 5, t1, K._tags(K.REFS, g1))
    env = W.new_env()
    W.run_writer(env, [("add", [e0]), ("add", [e2])])
    pre = W.stored_rows(env)
    W.run_writer(env, [("add", [dele])])
    post = W.stored_rows(env)
    err = effects.check_add(pre, K.row_of(dele), post)
    if err:
        return err
    err = W.coherence_error(env)
    if err:
        return err
    removed = [r["id"] for r in pre if r["id"] not in [x["id"] for x in post]]
    return "ok" if removed else "ok-nothing-removed"
