"""C09 (SQL backend) – one accepted event applied by the REAL DBStorage.add_event (pre_save,
INSERT OR IGNORE, post_save, process_tags) on the in-memory engine model; oracle refs/effects.py.
"""
import logging
from typing import List

from nostr_relay.errors import StorageError

from harness import _sqlstore as S
from harness import _kvcommon as K
from refs import effects
from vk.ob import obligation, pick, PARAM, THOROUGH

KIND_SETS = ((0, 0), (10000, 10000), (30000, 30000), (39999, 39999), (1, 0), (10000, 10001), (30000, 40000), (3, 3))
KA, KB = KIND_SETS[PARAM % 8]


@obligation(funcs=["storage.db.DBStorage.add_event", "storage.db.DBStorage.pre_save", "storage.db.DBStorage.post_save",
                   "storage.db.DBStorage.process_tags"],
            params=range(8), timeout=(450, 1800),
            bounds="store {e0, e1} (both of kind KA, authors by bool, created_at symbolic 1..200, d tag by selector from {absent, "
                   "a, ab, bare, empty, unicode}) then arrival of e2 of kind KB; (KA,KB) by PARAM from 8 pairs of replaceable / "
                   "parameterised / regular kinds; SELECT row order symbolic")
def ob_sql_replace(p0: bool, t0: int, g0: int, p1: bool, t1: int, g1: int, p2: bool, t2: int, g2: int, rev: bool) -> str:
    """
    pre: 1 <= t0 <= 200 and 1 <= t1 <= 200 and 1 <= t2 <= 200
    pre: 0 <= g0 < 6 and 0 <= g1 < 6 and 0 <= g2 < 6
    pre: (30000 <= KA < 40000) or KA == 10000 or (g0 == 0 and g1 == 0 and g2 == 0)
    pre: not p0 and g0 < 2 and (t1 == t0 or (THOROUGH and t1 == t2))
    pre: not p1 and ((THOROUGH and g1 < 4 and g2 in (0, 1, 4, 5)) or (g1 in (0, 1) and g2 in (0, 1, 4)))
    post: _.startswith("ok")
    """
    logging.disable(logging.CRITICAL)
    st = S.make_store(reverse_order=rev)
    for (i, p, t, g) in ((0, p0, t0, g0), (1, p1, t1, g1)):
        S.drive(st.add_event(S.evj(i, p, KA, t, K._tags(K.DTAGS, [g]))))
    pre = S.rows(st)
    new = S.evj(2, p2, KB, t2, K._tags(K.DTAGS, [g2]))
    try:
        ev, changed = S.drive(st.add_event(dict(new)))
    except Exception as e:
        return "a well-formed replaceable event was refused: %r" % (e,)
    post = S.rows(st)
    err = effects.check_add(pre, new, post, accepted_means_stored=bool(changed), ephemeral_stored_ok=True)
    if err:
        return err
    err = S.tags_coherent(st)
    if err:
        return err
    if changed and [b[0] for b in st.broadcasts].count(new["id"]) != 1:
        return "accepted event broadcast %d times" % [b[0] for b in st.broadcasts].count(new["id"])
    return "ok"




@obligation(funcs=["storage.db.DBStorage.add_event", "storage.db.DBStorage.pre_save"], timeout=(200, 900),
            bounds="three versions of one replaceable address (kind 10002, or kind 30023 with equal d) arriving in any order with "
                   "symbolic timestamps 1..200, plus (for kind 30023) a newer event under another d value; symbolic SELECT order: "
                   "after every arrival no stored version is older than another stored version of the same address")
def ob_sql_three_versions(t0: int, t1: int, t2: int, param: bool, rev: bool, other_newer: bool) -> str:
    """
    pre: 1 <= t0 <= 200 and 1 <= t1 <= 200 and 1 <= t2 <= 200
    pre: param or not other_newer
    post: _.startswith("ok")
    """
    logging.disable(logging.CRITICAL)
    st = S.make_store(reverse_order=rev)
    kind = 30023 if param else 10002
    tags = [["d", "a"]] if param else []
    if other_newer:
        S.drive(st.add_event(S.evj(4, False, kind, 250, [["d", "ab"]])))
    removed_any = False
    for (i, t) in ((0, t0), (1, t1), (2, t2)):
        pre = S.rows(st)
        new = S.evj(i, False, kind, t, [list(x) for x in tags])
        try:
            _, changed = S.drive(st.add_event(dict(new)))
        except Exception as e:
            return "version %d refused: %r" % (i, e)
        post = S.rows(st)
        err = effects.check_add(pre, new, post, accepted_means_stored=bool(changed), ephemeral_stored_ok=True)
        if err:
            return err + " (timestamps %d,%d,%d)" % (t0, t1, t2)
        removed_any = removed_any or len(post) <= len(pre)
    return "ok" if removed_any else "ok-nothing-replaced"
