"""C16 – admission policies decide exactly according to their documented bound, the pipeline is
fail-closed, the dynamic lists are exactly the p-tagged keys plus the static whitelist and an
enforced allow list is never seen empty by a concurrent validation.

Real code executed: every validator in nostr_relay.validators, validators.get_validator,
dynamic_lists.is_pubkey_allowed, dynamic_lists.ListBuilder.run_once,
recipe.homeserver.is_whitelisted_or_tagged.  `time` is a symbolic clock; the default executor is
replaced by a synchronous call (get_validator); the storage behind ListBuilder is a stub
yielding symbolic events; "the other thread" is modelled by a set subclass that runs a concurrent
validation after every mutation of the global allow list (GIL: set operations are atomic).
"""
import logging
import types
from typing import List

from nostr_relay import validators as V
from nostr_relay import dynamic_lists as DL
from nostr_relay.errors import StorageError
from vk.ob import obligation, pick, PARAM, opaque_int_format, fresh_module_state

PKS = ("aa" * 32, "bb" * 32, "cc" * 32, "dd" * 32)


class Ev:
    def __init__(self, **kw):
        self.kind = kw.get("kind", 1)
        self.created_at = kw.get("created_at", 0)
        self.content = kw.get("content", "")
        self.pubkey = kw.get("pubkey", PKS[0])
        self.tags = kw.get("tags", [])
        self.id_bytes = kw.get("id_bytes", b"")

    def has_tag(self, tag_name, matches=None):
        from aionostr.event import Event
        return Event.has_tag(self, tag_name, matches)


class Num:
    """int-like box around a symbolic int whose *formatting* is opaque: the validators put the value into
    their error message with an f-string, and rendering a symbolic int as text makes CrossHair realise it"""

    # the boxed value lives outside the object: CrossHair deep-realises whatever is handed to format()
    _REG = {}

    def __init__(self, v):
        Num._REG[id(self)] = v

    @property
    def v(self):
        return Num._REG[id(self)]

    def __sub__(self, o):
        return self.v - o

    def __rsub__(self, o):
        return o - self.v

    def __eq__(self, o):
        return self.v == (o.v if isinstance(o, Num) else o)

    def __ne__(self, o):
        return not self.__eq__(o)

    def __hash__(self):
        return 0

    def __format__(self, spec):
        return "<n>"

    __str__ = __repr__ = lambda self: "<n>"


def _raises(fn, *a):
    try:
        fn(*a)
    except StorageError:
        return True
    return False


def _cfg(**kw):
    return types.SimpleNamespace(**kw)


@obligation(funcs=["validators.is_not_too_large", "validators.is_recent", "validators.is_certain_kind",
                   "validators.is_author_whitelisted", "validators.is_author_blacklisted", "validators.is_service_event"],
            params=range(6), timeout=(90, 300),
            bounds="PARAM selects the validator; content length <=6 vs symbolic max size; created_at/now/oldest symbolic "
                   "ints < 2^32; kind vs list of <=3 symbolic kinds; pubkeys by selector from 4 keys, lists as subsets")
def ob_bounds(n: int, a: int, b: int, c: int, ks: List[int], sel: int, m0: bool, m1: bool) -> str:
    """
    pre: 0 <= n <= 6 and 0 <= a < 4294967296 and 0 <= b < 4294967296 and 0 <= c < 4294967296
    pre: len(ks) <= 3 and all(0 <= k < 65536 for k in ks) and 0 <= sel < 3
    pre: PARAM == 2 or not ks
    pre: PARAM == 0 or n == 0
    pre: PARAM in (1,) or (b == 0 and c == 0)
    pre: PARAM in (3, 4, 5) or sel == 0
    pre: PARAM in (3, 4) or (not m0 and not m1)
    pre: PARAM in (0, 1, 2, 5) or a == 0
    post: _.startswith("ok")
    """
    logging.disable(logging.CRITICAL)
    if PARAM == 0:
        got = _raises(V.is_not_too_large, Ev(content="x" * n), _cfg(max_event_size=a))
        want = n > a
    elif PARAM == 1:
        V.time = lambda: b
        got = _raises(V.is_recent, Ev(created_at=Num(a)), _cfg(oldest_event=c))
        want = (b - a) > c or (a - b) > 3600
    elif PARAM == 2:
        got = _raises(V.is_certain_kind, Ev(kind=Num(a)), _cfg(valid_kinds=ks))
        want = not any(k == a for k in ks)
    elif PARAM == 3:
        wl = [PKS[0]] * m0 + [PKS[1]] * m1
        got = _raises(V.is_author_whitelisted, Ev(pubkey=pick(PKS, sel)), _cfg(pubkey_whitelist=wl))
        want = not ((sel == 0 and m0) or (sel == 1 and m1))
    elif PARAM == 4:
        bl = [PKS[0]] * m0 + [PKS[1]] * m1
        got = _raises(V.is_author_blacklisted, Ev(pubkey=pick(PKS, sel)), _cfg(pubkey_blacklist=bl))
        want = (sel == 0 and m0) or (sel == 1 and m1)
    else:
        got = _raises(V.is_service_event, Ev(kind=Num(a), pubkey=pick(PKS, sel)), _cfg(service_pubkey=PKS[0]))
        want = a == 31494 and sel != 0
    if got != want:
        return "validator %d: raised=%r, documented bound says %r" % (PARAM, got, want)
    return "ok" if want else "ok-admitted"


@obligation(funcs=["validators.is_pow"], timeout=(200, 1500), params={"quick": (0,), "thorough": (0, 1)},
            bounds="PARAM 0: id = any value below 2^16 (240-256 leading zero bits); PARAM 1 (thorough): id = hi*2^248 + "
                   "(all-ones or zero low 248 bits), hi any byte; require_pow 0..256; refused iff the id has fewer leading "
                   "zero bits than required.  found_bits is rendered opaquely in the refusal message (VK_OPAQUE_INT_FORMAT)")
def ob_pow(hi: int, fill: bool, req: int) -> str:
    """
    pre: 0 <= hi < 65536 and 0 <= req <= 256
    pre: PARAM == 0 or hi < 256
    pre: PARAM == 1 or not fill
    post: _.startswith("ok")
    """
    logging.disable(logging.CRITICAL)
    opaque_int_format()  # found_bits only flows into the refusal message
    if PARAM == 0:
        idint = hi
    else:
        low = (2 ** 248 - 1) if fill else 0
        idint = (hi % 256) * (2 ** 248) + low
    got = _raises(V.is_pow, Ev(id_bytes=idint.to_bytes(32, "big")), _cfg(require_pow=req))
    # reference: count leading zero bits by comparing with powers of two
    lz = 0
    while lz < 256 and idint < 2 ** (255 - lz):
        lz += 1
    want = lz < req
    if got != want:
        return "is_pow raised=%r for id with %d leading zero bits, require_pow=%d" % (got, lz, req)
    return "ok" if want else "ok-admitted"


class Num2(Num):
    def __gt__(self, o):
        return self.v > o

    def __lt__(self, o):
        return self.v < o

    def __ge__(self, o):
        return self.v >= o

    def __le__(self, o):
        return self.v <= o


@obligation(funcs=["validators.is_not_hellthread"], timeout=(120, 600),
            bounds="<=4 tags from {p, e, P, bare p} by selector, kind symbolic, limit 0..4 (0/None = disabled)")
def ob_hellthread(kind: int, sels: List[int], limit: int) -> str:
    """
    pre: len(sels) <= 4 and all(0 <= s < 4 for s in sels) and 0 <= limit <= 4 and 0 <= kind < 10
    post: _.startswith("ok")
    """
    logging.disable(logging.CRITICAL)
    tags = [list(pick((["p", "x"], ["e", "x"], ["P", "x"], ["p"]), s)) for s in sels]
    got = _raises(V.is_not_hellthread, Ev(kind=kind, tags=tags), _cfg(hellthread_limit=limit))
    np = len([1 for s in sels if s == 0 or s == 3])
    want = limit > 0 and (kind == 1 or kind == 7) and np > limit
    if got != want:
        return "is_not_hellthread raised=%r with %d p tags, limit %d, kind %d" % (got, np, limit, kind)
    return "ok" if want else "ok-admitted"


class _Loop:
    def run_in_executor(self, pool, fn, *args):
        async def call():
            return fn(*args)
        return call()


class _FakeAsyncio:
    @staticmethod
    def get_running_loop():
        return _Loop()


def _drive(coro):
    try:
        coro.send(None)
    except StopIteration as e:
        return e.value
    raise RuntimeError("suspended")


@obligation(funcs=["validators.get_validator"], timeout=(90, 300),
            bounds="pipeline of 1-4 validators in symbolic order, one of them (symbolic index, or none) raising")
def ob_pipeline(n: int, bad: int) -> str:
    """
    pre: 1 <= n <= 4 and -1 <= bad < n
    post: _.startswith("ok")
    """
    logging.disable(logging.CRITICAL)
    calls = []
    ev = Ev()
    cfg = _cfg()

    def mk(i):
        def v(event, config):
            calls.append((i, event is ev, config is cfg))
            if i == bad:
                raise StorageError("rejected: %d" % i)
        return v

    fns = [mk(i) for i in range(n)]
    V.object_from_path = lambda name: fns[int(name)]
    V.asyncio = _FakeAsyncio
    validate = V.get_validator([str(i) for i in range(n)])
    raised = None
    try:
        _drive(validate(ev, cfg))
    except StorageError as e:
        raised = str(e)
    want_calls = [(i, True, True) for i in range(n if bad < 0 else bad + 1)]
    if calls != want_calls:
        return "validators called %r, want %r" % (calls, want_calls)
    if (raised is not None) != (bad >= 0):
        return "pipeline raised=%r with failing validator %d" % (raised, bad)
    return "ok" if bad >= 0 else "ok-admitted"


# ------------------------------------------------------------------ dynamic lists
class _Storage:
    def __init__(self, events):
        self.events = events

    async def run_single_query(self, queries):
        for e in self.events:
            yield e


PTAGS = (["p", "aa" * 32], ["p", "BB" * 32], ["p", "zz" * 32], ["p", "aa" * 31], ["p"], ["e", "cc" * 32], ["p", "cc" * 32, "x"])
WELL = {0: bytes.fromhex("aa" * 32), 1: bytes.fromhex("bb" * 32), 6: bytes.fromhex("cc" * 32)}


@obligation(funcs=["dynamic_lists.ListBuilder.run_once", "dynamic_lists.is_pubkey_allowed"], timeout=(150, 600),
            bounds="allow query yields 1 event with <=2 tags (plus optionally a second event with one valid p tag) from 7 shapes (valid p, upper-case p, non-hex, short, "
                   "bare, e tag, p with extra item); deny query configured or not; static whitelist of 0-1 keys; previous "
                   "list contents arbitrary subset of 2 keys")
def ob_list_refresh(t1: List[int], two: bool, wl: bool, old0: bool) -> str:
    """
    pre: len(t1) <= 2 and all(0 <= s < 7 for s in t1)
    post: _.startswith("ok")
    """
    t2 = [6] if two else []
    old1 = old0
    logging.disable(logging.CRITICAL)
    evs = [Ev(tags=[list(pick(PTAGS, s)) for s in t1])] + ([Ev(tags=[list(pick(PTAGS, s)) for s in t2])] if two else [])
    DL.ALLOWED_PUBKEYS.clear()
    DL.DENIED_PUBKEYS.clear()
    if old0:
        DL.ALLOWED_PUBKEYS.add(bytes.fromhex("dd" * 32))
    if old1:
        DL.ALLOWED_PUBKEYS.add(bytes.fromhex("aa" * 32))
    DL.get_storage = lambda: _Storage(evs)
    lb = DL.ListBuilder.__new__(DL.ListBuilder)
    lb.log = logging.getLogger("x")
    lb.options = {"allow_list_queries": [{"kinds": [3]}]}
    lb.initial = ["ee" * 32] if wl else []
    _drive(lb.run_once())
    want = set()
    for s in list(t1) + list(t2):
        if s in WELL:
            want.add(WELL[s])
    if want and wl:
        want.add(bytes.fromhex("ee" * 32))
    if set(DL.ALLOWED_PUBKEYS) != want:
        return "allow list %r, want %r" % (sorted(x.hex()[:4] for x in DL.ALLOWED_PUBKEYS), sorted(x.hex()[:4] for x in want))
    # the validator agrees with the list
    for pk in ("aa" * 32, "dd" * 32, "ee" * 32):
        refused = _raises(DL.is_pubkey_allowed, Ev(pubkey=pk), None)
        if refused != (bool(want) and bytes.fromhex(pk) not in want):
            return "is_pubkey_allowed(%s..) refused=%r with list %r" % (pk[:4], refused, sorted(x.hex()[:4] for x in want))
    return "ok" if want else "ok-empty"


class _HookSet(set):
    """a set that lets 'another thread' run after every mutation (set ops are atomic under the GIL)"""
    hook = None

    def clear(self):
        set.clear(self)
        self.hook()

    def update(self, *a):
        set.update(self, *a)
        self.hook()

    def intersection_update(self, *a):
        set.intersection_update(self, *a)
        self.hook()

    def difference_update(self, *a):
        set.difference_update(self, *a)
        self.hook()

    def add(self, x):
        set.add(self, x)
        self.hook()

    def discard(self, x):
        set.discard(self, x)
        self.hook()

    def __ior__(self, o):
        set.update(self, o)
        self.hook()
        return self

    def __iand__(self, o):
        set.intersection_update(self, o)
        self.hook()
        return self


@obligation(funcs=["dynamic_lists.ListBuilder.run_once", "dynamic_lists.is_pubkey_allowed"], timeout=(150, 600),
            bounds="refresh of an enforced (non-empty) allow list to another non-empty list, old and new lists arbitrary "
                   "non-empty subsets of {aa, bb}; a concurrent validation of an outsider key (dd) runs after every "
                   "mutation of the global set")
def ob_refresh_vs_validation(o0: bool, o1: bool, n0: bool, n1: bool) -> str:
    """
    pre: (o0 or o1) and (n0 or n1)
    post: _.startswith("ok")
    """
    logging.disable(logging.CRITICAL)
    hs = _HookSet()
    if o0:
        set.add(hs, bytes.fromhex("aa" * 32))
    if o1:
        set.add(hs, bytes.fromhex("bb" * 32))
    admitted = []

    def other_thread():
        if not _raises(DL.is_pubkey_allowed, Ev(pubkey="dd" * 32), None):
            admitted.append(sorted(x.hex()[:2] for x in hs))

    hs.hook = other_thread
    saved = DL.ALLOWED_PUBKEYS
    DL.ALLOWED_PUBKEYS = hs
    try:
        tags = ([["p", "aa" * 32]] if n0 else []) + ([["p", "bb" * 32]] if n1 else [])
        DL.get_storage = lambda: _Storage([Ev(tags=tags)])
        lb = DL.ListBuilder.__new__(DL.ListBuilder)
        lb.log = logging.getLogger("x")
        lb.options = {"allow_list_queries": [{"kinds": [3]}]}
        lb.initial = []
        # run_once binds the global set when it builds its (kind, set) tuple: patch the module global first
        _drive(lb.run_once())
    finally:
        DL.ALLOWED_PUBKEYS = saved
    if admitted:
        return "an outsider key was admitted while the list was being refreshed (list seen as %r)" % (admitted,)
    want = set(([bytes.fromhex("aa" * 32)] if n0 else []) + ([bytes.fromhex("bb" * 32)] if n1 else []))
    if set(hs) != want:
        return "list after refresh %r" % (sorted(x.hex()[:2] for x in hs),)
    return "ok"


@obligation(funcs=["recipe.homeserver.is_whitelisted_or_tagged"], timeout=(90, 300),
            bounds="author by selector from 3 keys, whitelist = subset of 2 keys, <=2 tags from {p wl-key, p other, e wl-key, "
                   "bare p}, kind symbolic")
def ob_homeserver_inbox(sel: int, w0: bool, w1: bool, tsel: List[int], kind: int) -> str:
    """
    pre: 0 <= sel < 3 and len(tsel) <= 2 and all(0 <= t < 4 for t in tsel) and 0 <= kind < 20000
    post: _.startswith("ok")
    """
    logging.disable(logging.CRITICAL)
    from nostr_relay.recipe import homeserver as H
    wl = ([PKS[0]] if w0 else []) + ([PKS[1]] if w1 else [])
    tags = [list(pick((["p", PKS[0]], ["p", PKS[2]], ["e", PKS[0]], ["p"]), t)) for t in tsel]
    ev = Ev(kind=kind, pubkey=pick(PKS, sel), tags=tags)
    got = _raises(H.is_whitelisted_or_tagged, ev, _cfg(pubkey_whitelist=wl))
    author_ok = (sel == 0 and w0) or (sel == 1 and w1)
    tagged = w0 and any(t == 0 for t in tsel)
    want = not (kind == 10002 or author_ok or tagged)
    if got != want:
        return "is_whitelisted_or_tagged raised=%r; author_ok=%r tagged=%r kind=%d" % (got, author_ok, tagged, kind)
    return "ok" if want else "ok-admitted"


@obligation(funcs=["validators.get_validator"], timeout=(90, 300),
            bounds="the same validator pipeline object validates the same event twice (the policy changed in between: symbolic), "
                   "then a different event that re-uses the first one's id and sig: every call runs every validator (no verdict "
                   "is carried over)")
def ob_pipeline_repeat(flip: bool, forged_same_id: bool) -> str:
    """
    post: _.startswith("ok")
    """
    logging.disable(logging.CRITICAL)
    fresh_module_state(V)
    calls = []
    state = {"deny": False}

    def policy(event, config):
        calls.append(event)
        if state["deny"]:
            raise StorageError("rejected: policy")

    V.object_from_path = lambda name: policy
    V.asyncio = _FakeAsyncio
    validate = V.get_validator(["p"])
    ev = Ev(pubkey=PKS[0])
    ev.id, ev.sig = "11" * 32, "22" * 64
    cfg = _cfg()
    _drive(validate(ev, cfg))
    state["deny"] = flip
    second = ev
    if forged_same_id:
        second = Ev(pubkey=PKS[1], kind=10002)
        second.id, second.sig = ev.id, ev.sig
    raised = False
    try:
        _drive(validate(second, cfg))
    except StorageError:
        raised = True
    if len(calls) != 2 or calls[1] is not second:
        return "the second submission was not validated (validators ran %d times)" % len(calls)
    if raised != flip:
        return "second verdict %r although the policy now says %r" % (raised, flip)
    return "ok"
