"""C02-K1 – completeness of the reverse cursor scan, per LMDB index.

Real code executed: nostr_relay.storage.kv.Index.scanner (+ the to_key() of each index class)
over the lmdb contract model.  The store is a symbolic key list built from <=N event records
through the *reference* layout (refs/kvlayout.py): for each record its key in the scanned index,
its primary record key (lower neighbour, prefix 0x00), one key in the next-higher index, and the
tombstone.  Matches are given in the order the planner emits them (distinct, descending).

Obligation: every record whose indexed value is one of the matches and whose created_at lies
strictly inside (since, until) is yielded.
"""
import logging
from typing import List, Optional, Tuple

from nostr_relay.storage import kv
import lmdb  # the contract model (stubs/lmdb)

from refs import kvlayout as L
from vk.ob import obligation, PARAM, THOROUGH, pick

IDX = PARAM % 6          # 0 kinds, 1 authors, 2 authorkinds, 3 tags, 4 created_at (range scan), 5 ids
TOPBYTE = (PARAM // 6) % 2  # 1: the symbolic timestamp byte is the most significant one
TWO = (PARAM // 12) % 2 == 1  # two match values (planner order) instead of one
N = 3 if (THOROUGH and PARAM in (0, 4, 5, 10)) else 2
INDEX = [kv.INDEXES[n] for n in ("kinds", "authors", "authorkinds", "tags", "created_at", "ids")][IDX]

PKS = tuple("00" * 31 + "%02x" % b for b in (0, 1, 255))
NAMES = ("p", "e")
FAMILY = (PARAM // 24) % 2  # tag value family
VALUES = (("a", "ab", "a\x00"), ("", "a", "é"))[FAMILY]  # prefixes of one another, NUL, empty, multi-byte
IDS = tuple("%02x" % b + "00" * 30 + "%02x" % c for (b, c) in ((0, 1), (255, 255), (128, 0)))


def _ts(t):
    return t * 16777216 if TOPBYTE else t


def _idb(i):
    return bytes(31) + bytes([i])


def _value(v1, v2):
    """planner-format match value for the scanned index"""
    if IDX == 0:
        return v1
    if IDX == 1:
        return pick(PKS, v1)
    if IDX == 2:
        return (pick(PKS, v1), v2)
    if IDX == 3:
        return (pick(NAMES, v1), pick(VALUES, v2))
    if IDX == 5:
        return pick(IDS, v1)
    return None


def _key(v1, v2, ts, i):
    val = _value(v1, v2)
    if IDX == 0:
        return L.k_kind(val, ts, _idb(i))
    if IDX == 1:
        return L.k_author(bytes.fromhex(val), ts, _idb(i))
    if IDX == 2:
        return L.k_authorkind(bytes.fromhex(val[0]), val[1], ts, _idb(i))
    if IDX == 3:
        return L.k_tag(val[0], val[1], ts, _idb(i))
    if IDX == 4:
        return L.k_created(ts, _idb(i))
    return L.k_id(bytes.fromhex(val))


def _upper(ts, i):
    """a key of the next-higher index (what the seek lands on above the scanned range)"""
    if IDX == 0:
        return L.k_author(bytes(32), ts, _idb(i))
    if IDX == 1:
        return L.k_authorkind(bytes(32), 0, ts, _idb(i))
    if IDX == 2:
        return L.k_tag("a", "", ts, _idb(i))
    if IDX == 4:
        return L.k_kind(0, ts, _idb(i))
    if IDX == 5:
        return L.k_created(ts, _idb(i))
    return None


def _rid(v1, i):
    """the 32-byte event id a row stands for"""
    if IDX == 5:
        return bytes.fromhex(pick(IDS, v1))
    return _idb(i)


def _domain_ok(v1, v2):
    if IDX == 0:
        return 0 <= v1 < 256 and v2 == 0
    if IDX == 1:
        return 0 <= v1 < 3 and v2 == 0
    if IDX == 2:
        return v1 in (0, 2) and 0 <= v2 < 256
    if IDX == 3:
        return 0 <= v1 < 1 and 0 <= v2 < 3
    if IDX == 5:
        return 0 <= v1 < 3 and v2 == 0
    return v1 == 0 and v2 == 0


def _desc(a, b):
    """a sorts strictly after b in the order the planner uses (reverse sorted, distinct)"""
    return _value(a[0], a[1]) > _value(b[0], b[1])


def _rows_ok(rows):
    """distinct event ids, and rows listed in ascending key order (symmetry reduction: the store is
    a sorted key list, so nothing is lost by asking the solver for the sorted presentation)"""
    n = len(rows)
    if IDX == 5:
        # an id identifies one event; the id byte argument is unused
        return all(r[3] == 0 for r in rows) and all(IDS[rows[i][0]] < IDS[rows[i + 1][0]] for i in range(n - 1))
    if not all(rows[i][3] != rows[j][3] for i in range(n) for j in range(i + 1, n)):
        return False
    return all(_key(rows[i][0], rows[i][1], _ts(rows[i][2]), rows[i][3]) <
               _key(rows[i + 1][0], rows[i + 1][1], _ts(rows[i + 1][2]), rows[i + 1][3]) for i in range(n - 1))


@obligation(funcs=["storage.kv.Index.scanner", "storage.kv.KindIndex.to_key", "storage.kv.PubkeyIndex.to_key",
                   "storage.kv.AuthorKindIndex.to_key", "storage.kv.TagIndex.to_key", "storage.kv.IdIndex.to_key",
                   "storage.kv.CreatedIndex.to_key", "storage.kv.bytes_from_hex"],
            params={"quick": (0, 3, 4, 5, 6, 10, 12, 27), "thorough": list(range(24)) + [27, 33, 39, 45]}, timeout=(300, 1800),
            bounds="store of <=N records (N=2; N=3 in the thorough tier for kinds/created_at/ids) with distinct ids; one symbolic byte per value/"
                   "timestamp/id (timestamp byte in the low or the top position, PARAM//6); 1-2 matches in planner "
                   "order; since/until None or one symbolic byte; tag values from the family {a, ab, a\\0} or {'', a, e-acute} (PARAM//24) (name p), "
                   "authors/ids from 3 representatives incl. 0xff..; neighbours: primary records below, one key "
                   "of the next index and the tombstone above")
def ob_scan_complete(rows: List[Tuple[int, int, int, int]], m1: Tuple[int, int], m2: Tuple[int, int],
                     since: Optional[int], until: Optional[int]) -> str:
    """
    pre: len(rows) <= N
    pre: all(_domain_ok(r[0], r[1]) and 0 <= r[2] < 256 and 0 <= r[3] < 256 for r in rows)
    pre: _rows_ok(rows)
    pre: _domain_ok(m1[0], m1[1]) and _domain_ok(m2[0], m2[1])
    pre: IDX == 4 or not TWO or _desc(m1, m2)
    pre: TWO or m2 == (0, 0)
    pre: since is None or 0 <= since < 256
    pre: until is None or 0 <= until < 256
    post: _.startswith("ok")
    """
    logging.disable(logging.CRITICAL)
    env = lmdb.open()
    group = [_key(r[0], r[1], _ts(r[2]), r[3]) for r in rows]  # ascending by precondition
    lower = [L.k_id(bytes(32))] if (rows and IDX != 5) else []   # a primary record below every index
    upper = []
    if rows and _upper(0, 0) is not None:
        upper = [_upper(_ts(rows[0][2]), rows[0][3])]
    env.keys = lower + group + upper + [L.TOMBSTONE]
    env.vals = [b""] * len(env.keys)
    if IDX == 4:
        matches = []
    else:
        matches = [_value(m1[0], m1[1])] + ([_value(m2[0], m2[1])] if TWO else [])
    s = None if since is None else _ts(since)
    u = None if until is None else _ts(until)
    txn = env.begin()
    with INDEX.scanner(txn, matches, since=s, until=u) as sc:
        got = [bytes(x) for x in sc]
    want = []
    for r in rows:
        if IDX != 4 and _value(r[0], r[1]) not in matches:
            continue
        t = _ts(r[2])
        if (s is None or t > s) and (u is None or t < u):
            want.append(_rid(r[0], r[3]))
    for w in want:
        if w not in got:
            return "missing event id ..%s: matches=%r since=%r until=%r keys=%r got=%r" % (
                w[-2:].hex(), matches, s, u, [k.hex() for k in env.keys], [g[-2:].hex() for g in got])
    return "ok" if want else "ok-trivial"
