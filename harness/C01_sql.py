"""C01 / C02 / C11 (SQL backend) – the WHERE clause db.Subscription.build_query generates is a row-wise
predicate equal to NIP-01 matching, and filter strings stay inside their literals.

ob_sql_where:   real build_query on holes -> statement template -> sqlmini: for a symbolic event row (tag rows
                from the real process_tags) WHERE true => may(F,E) for some filter, must(F,E) => WHERE true.
ob_sql_literal: real evaluate_filter with SYMBOLIC tag name / tag values (<=2 characters over {a, quote,
                backslash, NUL, percent}): the emitted fragment tokenizes (SQL quote-doubling lexer) to the fixed
                skeleton with every string literal decoding to exactly the supplied value.
ob_sql_shape:   the statement selects the 7 event columns in the order event_from_tuple expects, has one WHERE,
                ORDER BY created_at DESC and a LIMIT.
"""
import logging
from typing import List, Optional

from aionostr.event import Event
from nostr_relay.storage.base import NostrQuery

from envmodel import sqlmini
from harness import _sqlcommon as S
from refs import nip01
from vk.ob import obligation, pick, PARAM, THOROUGH

HEX = ("00" * 32, "ab" * 32, "ff" * 32)
NAMES = ("e", "p")
VALS = ("a", "b", "")
SHAPE = PARAM % 9
ALPH = "a'\\\x00%"


def _may_sql(f, e):
    return nip01.may(f, e)


@obligation(funcs=["storage.db.Subscription.build_query", "storage.db.Subscription.evaluate_filter",
                   "storage.db.DBStorage.process_tags"],
            params=range(9), timeout=(450, 1500),
            bounds="PARAM = filter shape: 8 a valid ids/authors constraint followed by an unsatisfiable member (empty kinds list, over-long author key), 7 two tag conditions in one filter (event with two tags), 0 ids, 1 authors (+ delegation tag on the event), 2 kinds (1-2 values), 3 since/until, "
                   "4 one tag condition (1-2 values incl. ''), 5 kinds+tag+until, 6 two filters (kinds | tag).  ints symbolic, "
                   "strings by selector from small pools; event: symbolic kind/created_at, 1-2 tags of 1-2 items")
def ob_sql_where(idsel: int, pksel: int, kind: int, ts: int, tn: int, tv: int, bare: bool, deleg: int,
                 h1: int, k1: int, k2: int, two: bool, since: Optional[int], until: Optional[int], n1: int, v1: int, v2: int) -> str:
    """
    pre: 0 <= idsel < 3 and 0 <= pksel < 3 and 0 <= kind < 70000 and 1 <= ts < 4294967296
    pre: 0 <= tn < 2 and 0 <= tv < 3 and 0 <= deleg < 3 and 0 <= h1 < 3 and 0 <= k1 < 70000 and 0 <= k2 < 70000
    pre: since is None or 0 <= since < 2145934800
    pre: until is None or 0 <= until < 2145934800
    pre: 0 <= n1 < 2 and 0 <= v1 < 3 and 0 <= v2 < 3
    pre: SHAPE in (0, 8) or idsel == 0
    pre: SHAPE == 1 or (pksel == 0 and deleg == 0)
    pre: SHAPE in (0, 1, 8) or h1 == 0
    pre: SHAPE in (2, 5, 6) or (k1 == 0 and k2 == 0)
    pre: SHAPE in (3, 5) or (since is None and until is None)
    pre: SHAPE != 5 or since is None
    pre: SHAPE in (4, 5, 6, 7, 8) or (tn == 0 and tv == 0 and not bare and n1 == 0 and v1 == 0 and v2 == 0)
    pre: (SHAPE in (2, 4, 7, 8) or not two) and (two or (k2 == 0 and v2 == 0) or SHAPE == 7)
    pre: SHAPE != 8 or (tn == 0 and tv == 0 and not bare and v1 == 0 and v2 == 0 and k1 == 0 and k2 == 0 and n1 < 2)
    post: _.startswith("ok")
    """
    return where_body(idsel, pksel, kind, ts, tn, tv, bare, deleg, h1, k1, k2, two, since, until, n1, v1, v2)


def where_body(idsel, pksel, kind, ts, tn, tv, bare, deleg, h1, k1, k2, two, since, until, n1, v1, v2):
    """body of ob_sql_where (no contract of its own: CrossHair would otherwise enforce it at the call site of
    harness/C02_sql.py and ignore the failing paths)"""
    logging.disable(logging.CRITICAL)
    tags = [[pick(NAMES, tn)] + ([] if bare else [pick(VALS, tv)])]
    if deleg:
        tags.append(["delegation", pick(HEX, deleg), "c", "s"])
    e = dict(id=pick(HEX, idsel), pubkey=pick(HEX, pksel), kind=kind, created_at=ts, tags=tags)
    f = dict(ids=None, authors=None, kinds=None, since=since, until=until, tags=None)
    filters = [f]
    if SHAPE == 0:
        f["ids"] = [pick(HEX, h1)]
    if SHAPE == 1:
        f["authors"] = [pick(HEX, h1)]
    if SHAPE in (2, 5):
        if two and not (k1 > k2):
            return "ok-unsorted"
        f["kinds"] = [k1] + ([k2] if two else [])
    if SHAPE in (4, 5):
        f["tags"] = [(pick(NAMES, n1), sorted(set([pick(VALS, v1)] + ([pick(VALS, v2)] if two else []))))]
    if SHAPE == 7:
        # two conditions (#e and #p) in one filter; the event carries an e tag (tn/tv) and, if `two`, a second p tag
        f["tags"] = [("p", sorted(set([pick(VALS, v2)] + ([pick(VALS, n1)] if two else [])))), ("e", [pick(VALS, v1)])]
        tags[0][0] = "e"
        if two:
            tags.append(["p", pick(VALS, tv)])
            tags.append(["p", pick(VALS, n1)])
        e["tags"] = tags
    if SHAPE == 8:
        # evaluate_filter meets the valid member first and the unsatisfiable one afterwards
        if two:
            f["ids"] = [pick(HEX, h1)]
            f["authors"] = ["ab" * 33]
        else:
            f["ids" if n1 == 0 else "authors"] = [pick(HEX, h1)]
            f["kinds"] = []
    if SHAPE == 6:
        f["kinds"] = [k1]
        filters = [f, dict(ids=None, authors=None, kinds=None, since=None, until=None, tags=[(pick(NAMES, n1), [pick(VALS, v1)])])]
    if SHAPE == 3 and since is None and until is None:
        return "ok-noshape"
    try:
        stmt, env, text = S.template(filters)
    except sqlmini.Unsupported as ex:
        return "harness-error: generated SQL is outside the modelled grammar (%s)" % ex
    ev = Event(id=e["id"], pubkey=e["pubkey"], kind=kind, created_at=ts, tags=tags, content="", sig="00" * 64)
    row = dict(id=bytes.fromhex(e["id"]), pubkey=bytes.fromhex(e["pubkey"]), kind=kind, created_at=ts, tags=S.tag_rows(ev))
    if stmt["where"] is None:
        return "statement without WHERE: %s" % text
    got = bool(sqlmini.evaluate(stmt["where"], row, env))
    if got and not any(_may_sql(x, e) for x in filters):
        return "row selected although no filter matches: filters %r event %r\n%s" % (filters, e, text)
    if not got and any(nip01.must(x, e) for x in filters):
        return "matching row not selected: filters %r event %r\n%s" % (filters, e, text)
    return "ok" if (got or SHAPE == 8) else "ok-nomatch"


def pre_ok(idsel, pksel, kind, ts, tn, tv, bare, deleg, h1, k1, k2, two, since, until, n1, v1, v2):
    """the bounds of ob_sql_where as a predicate (used by harness/C02_sql.py)"""
    return ((0 <= idsel < 3 and 0 <= pksel < 3 and 0 <= kind < 70000 and 1 <= ts < 4294967296)
            and (0 <= tn < 2 and 0 <= tv < 3 and 0 <= deleg < 3 and 0 <= h1 < 3 and 0 <= k1 < 70000 and 0 <= k2 < 70000)
            and (since is None or 0 <= since < 2145934800)
            and (until is None or 0 <= until < 2145934800)
            and (0 <= n1 < 2 and 0 <= v1 < 3 and 0 <= v2 < 3)
            and (SHAPE in (0, 8) or idsel == 0)
            and (SHAPE == 1 or (pksel == 0 and deleg == 0))
            and (SHAPE in (0, 1, 8) or h1 == 0)
            and (SHAPE in (2, 5, 6) or (k1 == 0 and k2 == 0))
            and (SHAPE in (3, 5) or (since is None and until is None))
            and (SHAPE != 5 or since is None)
            and (SHAPE in (4, 5, 6, 7, 8) or (tn == 0 and tv == 0 and not bare and n1 == 0 and v1 == 0 and v2 == 0))
            and ((SHAPE in (2, 4, 7, 8) or not two) and (two or (k2 == 0 and v2 == 0) or SHAPE == 7))
            and (SHAPE != 8 or (tn == 0 and tv == 0 and not bare and v1 == 0 and v2 == 0 and k1 == 0 and k2 == 0 and n1 < 2)))


def _lex_fragment(text):
    return sqlmini.tokenize(text)


@obligation(funcs=["storage.db.Subscription.evaluate_filter"], timeout=(450, 1500), params=range(2),
            bounds="PARAM 0: SQLite dialect, 1: Postgres dialect.  Tag name (1 character) and two tag values (<=2 characters) "
                   "SYMBOLIC strings over {a, quote, backslash, NUL, percent}")
def ob_sql_literal(name: str, v1: str, v2: str) -> str:
    """
    pre: len(name) == 1 and len(v1) <= 2 and len(v2) <= 2
    pre: all(c in ALPH for c in name) and all(c in ALPH for c in v1) and all(c in ALPH for c in v2)
    pre: len(v1) >= 1 and len(v2) >= 1 and v1 != v2
    post: _.startswith("ok")
    """
    logging.disable(logging.CRITICAL)
    sub = S.subscription(postgres=PARAM == 1)
    q = NostrQuery.model_construct(ids=None, authors=None, kinds=None, since=None, until=None, limit=10, search=None,
                                   tags=[(name, [v1, v2])])
    subwhere = []
    sub.evaluate_filter(q, subwhere)
    if len(subwhere) != 1:
        return "tag condition produced %d fragments" % len(subwhere)
    ref = "id IN (SELECT id FROM tags WHERE name = %s AND value IN (%s,%s)) " % (_quote(name), _quote(v1), _quote(v2))
    if subwhere[0] == ref:
        return "ok"
    # not the canonical rendering.  Lexing a symbolic fragment does not finish within a path budget, so the
    # symbolic run reports the mismatch and the concrete replay (VK_REPLAY) decides it by lexing: an
    # equivalent rendering then fails to reproduce (harness error, exit 3), an injection is confirmed.
    import os
    if not os.environ.get("VK_REPLAY"):
        return "fragment is not the canonical rendering: %r" % (subwhere[0],)
    try:
        toks = _lex_fragment(subwhere[0])
    except sqlmini.Unsupported as e:
        return "fragment does not tokenize: %s: %r" % (e, subwhere[0])
    want = [("id", "id"), ("id", "IN"), ("op", "("), ("id", "SELECT"), ("id", "id"), ("id", "FROM"), ("id", "tags"), ("id", "WHERE"),
            ("id", "name"), ("op", "="), ("str", name), ("id", "AND"), ("id", "value"), ("id", "IN"), ("op", "("), ("str", v1),
            ("op", ","), ("str", v2), ("op", ")"), ("op", ")")]
    if toks != want:
        return "filter strings escaped their literals: %r -> %r" % (subwhere[0], toks)
    return "ok"


def _quote(s):
    """reference SQL string literal: quotes doubled (SQLite; Postgres with standard_conforming_strings)"""
    return "'" + s.replace("'", "''") + "'"


@obligation(funcs=[], timeout=(350, 1200),
            bounds="lemma used by ob_sql_literal: for every string of <=3 characters over {a, quote, backslash, NUL, percent} the "
                   "reference literal (quotes doubled) is read back by the SQL lexer as exactly one string token with that value")
def ob_quote_lemma(v: str) -> str:
    """
    pre: len(v) <= 3 and all(c in ALPH for c in v)
    post: _.startswith("ok")
    """
    toks = sqlmini.tokenize(_quote(v) + ",")
    if toks != [("str", v), ("op", ",")]:
        return "literal %r reads back as %r" % (_quote(v), toks)
    return "ok"


@obligation(funcs=["storage.db.Subscription.build_query", "storage.db.event_from_tuple"], timeout=(60, 300),
            bounds="statement skeleton for 1-2 filters (concrete template check)")
def ob_sql_shape(two: bool) -> str:
    """
    post: _.startswith("ok")
    """
    logging.disable(logging.CRITICAL)
    filters = [dict(kinds=[1])] + ([dict(tags=[("e", ["a"])])] if two else [])
    stmt, env, text = S.template(filters)
    if stmt["columns"] != ["id", "created_at", "kind", "pubkey", "tags", "sig", "content"]:
        return "selected columns %r" % (stmt["columns"],)
    if stmt["order"] != "created_at DESC" or not isinstance(stmt["limit"], int):
        return "ORDER BY / LIMIT missing"
    return "ok"
