"""C19 / C13 – the connection handler survives any parsed message, keeps answering, cleans up; every REQ
gets its stored events and one EOSE, or a NOTICE.

Real code executed: web.start_client, web.validate_message, web.send_subscriptions,
storage.base.BaseStorage.{subscribe, unsubscribe, notify_all_connected}, NostrQuery.model_validate
(real pydantic, the filter objects are concrete per path), storage.kv.LMDBStorage.add_event – on the
loop model envmodel/fake_asyncio.py ("the client speaks after the relay went idle").

One *symbolic* parsed message (head by PARAM, two further positions drawn by symbolic selectors from a
pool of JSON values of every type, 0-3 positions present) is followed by a well-formed probe REQ and a
disconnect; a second, well-behaved connection holds a subscription throughout.
"""
import logging
from typing import List

from nostr_relay.config import Config

from envmodel.fake_asyncio import Loop, Deadlock
from harness import _webcommon as C
from vk.ob import obligation, pick, PARAM, THOROUGH

HEADS = ("REQ", "EVENT", "CLOSE", "AUTH", "req", "NOTICE", 5, None)
HEAD = HEADS[PARAM % len(HEADS)]
HALF = (PARAM // len(HEADS)) % 2   # which half of the JUNK pool position a draws from
EV = C.VALID_EVENT
JUNK = (None, True, 0, "probe", 1.5, "", "a", "\x00\"\\", [], [1], {}, {"id": "x"}, {"kinds": [1]}, {"kinds": "x"}, {"ids": [5]},
        {"#e": [1]}, {"#e": []}, {"limit": -1}, {"since": "z"}, [[]], {"tags": "x"}, dict(EV), dict(EV, tags="x"), dict(EV, kind="k"),
        dict(EV, content=5), dict(EV, id=None), {"ids": ["zz"]}, {"authors": ["ab"]}, {"kinds": []}, {"#ee": ["x"]},
        {"kinds": [1], "limit": 0}, {"search": 5})
SMALL = (None, "a", {"kinds": [1]}, [], {"kinds": "x"}, 7)


def _second_connection(loop, store):
    """a well-behaved client that subscribed before and stays connected"""
    q = loop.namespace().Queue()
    from nostr_relay import web as _web
    cid = _web.ClientID("10.0.0.9")
    loop.run(store.subscribe(cid, "theirs", [{"kinds": [1]}], q, auth_token={}))
    return cid, q


@obligation(funcs=["web.start_client", "web.validate_message", "web.send_subscriptions", "storage.base.BaseStorage.subscribe",
                   "storage.base.BaseStorage.unsubscribe", "storage.base.NostrQuery.model_validate",
                   "storage.kv.LMDBStorage.add_event"],
            params=range(2 * len(HEADS)), timeout=(450, 1800),
            bounds="one message [HEAD, a, b][:n] with HEAD by PARAM from {REQ, EVENT, CLOSE, AUTH, lower-case, other string, "
                   "number, null}, a from 32 JSON values (every type; event and filter objects with type-confused fields), b "
                   "from 6, n in 1..3 (all symbolic selectors), or the bare value a as the whole message; mode in {plain, "
                   "authentication enabled + throttle 2, rate limiter refusing the first message}; then a probe REQ and a "
                   "disconnect, delivered when the relay is idle or (symbolic) all buffered in advance; a second connection from the same address (its ClientID text may collide) holds a subscription")
def ob_handler_survives(a: int, b: int, n: int, bare: bool, mode: int, eager: bool, collide: bool) -> str:
    """
    pre: 0 <= a < 16 and 0 <= b < len(SMALL) and 1 <= n <= 3
    pre: not bare or (n == 1 and b == 0)
    pre: n == 3 or b == 0
    pre: 0 <= mode < 3
    pre: not collide or (mode == 0 and not eager)
    post: _.startswith("ok")
    """
    logging.disable(logging.CRITICAL)
    a = a + 16 * HALF
    auth_on = throttled = mode == 1
    limited = mode == 2
    loop = Loop()
    # the REAL util.ClientID; both connections come from the same address and (symbolic) may draw the same random suffix
    C.install(loop, tokens=["aaaa", "aaaa" if collide else "bbbb"])
    C.StubSub.n_stored = 1
    Config.subscription_limit = 32
    store = C.Store(loop, auth=C.StubAuth(enabled=auth_on, throttle=2 if throttled else 0, outcome="autherror"),
                    validator=None)
    other_cid, other_q = _second_connection(loop, store)
    va, vb = pick(JUNK, a), pick(SMALL, b)
    m0 = va if bare else [HEAD, va, vb][:n]
    conn = C.Conn(loop, [m0, ["REQ", "probe", {"kinds": [1]}]])
    if eager:
        conn.eager = [True, True, True]    # every frame and the disconnect are already buffered: receive() never yields
    lim = C.Limiter(limited_at=(0,) if limited else ())
    try:
        loop.run(C.run_client(loop, store, conn, limiter=lim))
    except Deadlock as e:
        return "handler wedged: %s" % e
    except Exception as e:
        return "exception escaped the connection handler: %r" % (e,)
    except C.CancelledError as e:
        return "CancelledError escaped the connection handler"
    loop.settle()
    frames = conn.frames()
    for f in frames:
        if not (isinstance(f, list) and f and f[0] in ("EVENT", "EOSE", "OK", "NOTICE", "AUTH")):
            return "unexpected frame %r" % (f,)
    probe_answered = any(f[0] == "EOSE" and f[1] == "probe" for f in frames) or \
        any(f[0] == "NOTICE" for (i, t) in conn.sent for f in [C.json.loads(t)] if i == 2)
    # (when every frame and the disconnect were buffered in advance the client was gone before the relay could answer)
    if not conn.closed and not probe_answered and not eager:
        return "connection kept open but the probe REQ got no EOSE/NOTICE: %r" % (frames,)
    if len(store.clients) != 1 or other_cid not in store.clients:
        return "registry after disconnect: %d clients (the other connection %s)" % (
            len(store.clients), "kept" if other_cid in store.clients else "LOST")
    if "theirs" not in store.clients[other_cid]:
        return "the other connection's subscription was dropped"
    if lim.cleaned != 1:
        return "rate limiter cleanup called %d times" % lim.cleaned
    unfinished = [t.name for t in loop.tasks if not t.finished]
    if unfinished:
        return "%d tasks still alive after the connection ended" % len(unfinished)
    return "ok"


HOSTILE_TAGS = ([["e", {"a": 1}]], [["t", ["x"]]], [["expiration", {"n": 1}]], [["e", "x"]])


@obligation(funcs=["web.start_client", "storage.db.DBStorage.add_event", "storage.db.DBStorage.process_tags"],
            timeout=(200, 900),
            bounds="SQL backend behind the real handler: k<=3 EVENT messages whose tags make the storage raise inside its "
                   "transaction (object / array tag values, or an engine-level rejection of the row, by symbolic selector), insert slot capacity 2, then a well-formed "
                   "EVENT from a second connection: every EVENT is answered by one OK and the last one is accepted")
def ob_sql_hostile_events(k: int, h0: int, h1: int, h2: int) -> str:
    """
    pre: 0 <= k <= 3 and 0 <= h0 < 4 and 0 <= h1 < 4 and 0 <= h2 < 4
    pre: (k > 2 or h2 == 0) and (k > 1 or h1 == 0) and (k > 0 or h0 == 0)
    post: _.startswith("ok")
    """
    return hostile_body(k, h0, h1, h2)


def hostile_body(k, h0, h1, h2):
    logging.disable(logging.CRITICAL)
    from harness import _sqlstore as S
    from envmodel.fake_asyncio import Semaphore
    loop = Loop()
    C.install(loop)
    st = S.make_store()
    st.add_slot = Semaphore(2)
    st.clients = {}
    st.subscription_class = C.StubSub
    msgs = []
    for i, h in enumerate((h0, h1, h2)[:k]):
        ev = S.evj(i, False, 1, 10 + i, [list(t) for t in pick(HOSTILE_TAGS, h)])
        msgs.append(["EVENT", ev])
        if h == 3:
            # an ordinary-looking event the engine rejects inside the transaction (value too large for a column, ...)
            st.db.fail_ids.append(bytes.fromhex(ev["id"]))
    conn1 = C.Conn(loop, msgs)
    conn2 = C.Conn(loop, [["EVENT", S.evj(4, True, 1, 50, [["e", "fine"]])]])
    try:
        loop.run(C.run_client(loop, st, conn1))
        loop.run(C.run_client(loop, st, conn2))
    except Deadlock as e:
        return "a later connection is wedged after %d failing EVENTs: %s" % (k, e)
    except Exception as e:
        return "exception escaped the connection handler: %r" % (e,)
    oks1 = [f for f in conn1.frames() if f[0] == "OK"]
    oks2 = [f for f in conn2.frames() if f[0] == "OK"]
    if len(oks1) != k:
        return "%d EVENTs answered by %d OK frames" % (k, len(oks1))
    if len(oks2) != 1 or oks2[0][2] is not True:
        return "well-formed EVENT of the second connection answered %r" % (conn2.frames(),)
    if st.add_slot.acquired != 0:
        return "insert slot leaked (%d held)" % st.add_slot.acquired
    return "ok" if k else "ok-trivial"
