"""Reference effect of accepting one event on a store (NIP-01/09/16/33), as must/may sets.

rows are dicts with id, pubkey, kind, created_at, tags.  `dval` is the NIP-33 d value: the value of
the first "d" tag, "" when the tag is bare or absent."""


def dval(e):
    for t in e["tags"]:
        if len(t) >= 1 and t[0] == "d":
            return t[1] if len(t) > 1 else ""
    return ""


def address(e):
    k = e["kind"]
    if k == 0 or k == 3 or (10000 <= k < 20000):
        return (e["pubkey"], k, None)
    if 30000 <= k < 40000:
        return (e["pubkey"], k, dval(e))
    return None


def is_ephemeral(e):
    return 20000 <= e["kind"] < 30000


def referenced(e):
    out = []
    if e["kind"] == 5:
        for t in e["tags"]:
            if len(t) > 1 and t[0] == "e":
                out.append(t[1])
    return out


def check_add(pre, new, post, accepted_means_stored=True, ephemeral_stored_ok=False):
    """None if `post` is an allowed result of accepting `new` into `pre` (new.id not in pre)."""
    pre_ids = [r["id"] for r in pre]
    post_ids = [r["id"] for r in post]
    for pid in post_ids:
        if pid not in pre_ids and pid != new["id"]:
            return "event %s appeared from nowhere" % pid[:6]
    a = address(new)
    refs = referenced(new)
    for x in pre:
        same_addr = a is not None and address(x) == a
        ref_own = x["id"] in refs and x["pubkey"] == new["pubkey"]
        must_go = (same_addr and x["created_at"] < new["created_at"]) or (ref_own and x["created_at"] < new["created_at"])
        may_go = (same_addr and x["created_at"] <= new["created_at"]) or ref_own
        present = x["id"] in post_ids
        if present and must_go:
            return "older event %s (kind %r, d %r) survived the arrival of %s" % (x["id"][:6], x["kind"], dval(x), new["id"][:6])
        if not present and not may_go:
            return "unrelated event %s (kind %r, pubkey %s, d %r, t=%r) was removed by the arrival of %s (kind %r, d %r, t=%r)" % (
                x["id"][:6], x["kind"], x["pubkey"][:4], dval(x), x["created_at"], new["id"][:6], new["kind"], dval(new), new["created_at"])
    stored = new["id"] in post_ids
    if is_ephemeral(new):
        # LMDB never stores ephemeral kinds; the SQL backend keeps them until the next garbage-collection pass
        if stored and not ephemeral_stored_ok:
            return "ephemeral event was stored"
    elif not stored and accepted_means_stored:
        superseded = a is not None and any(address(x) == a and x["created_at"] >= new["created_at"] for x in pre)
        if not superseded:
            return "accepted event %s is not stored" % new["id"][:6]
    return None
