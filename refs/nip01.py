"""Reference NIP-01 filter matching (with the NIP-26 delegator alternative for authors).

A filter is a plain dict: ids/authors/kinds -> list or None, since/until -> int or None,
tags -> list of (name, [values]) or None.  An event is a dict: id, pubkey, kind, created_at,
tags (list of lists).

must(f, e): e matches with created_at strictly inside the window and a *direct* author match –
            every correct implementation has to return it.
may(f, e):  e matches when window bounds are inclusive and a delegation tag naming a requested
            author also counts – anything returned has to satisfy this.
"""


def _tag_ok(e, name, values):
    for t in e["tags"]:
        if len(t) > 1 and t[0] == name and t[1] in values:
            return True
    return False


def _delegated(e, authors):
    for t in e["tags"]:
        if len(t) > 1 and t[0] == "delegation" and t[1] in authors:
            return True
    return False


def _common(f, e):
    if f.get("ids") is not None and e["id"] not in f["ids"]:
        return False
    if f.get("kinds") is not None and e["kind"] not in f["kinds"]:
        return False
    for name, values in (f.get("tags") or []):
        if not _tag_ok(e, name, values):
            return False
    return True


def must(f, e):
    if not _common(f, e):
        return False
    if f.get("authors") is not None and e["pubkey"] not in f["authors"]:
        return False
    if f.get("since") is not None and not (e["created_at"] > f["since"]):
        return False
    if f.get("until") is not None and not (e["created_at"] < f["until"]):
        return False
    return True


def may(f, e):
    if not _common(f, e):
        return False
    if f.get("authors") is not None and not (e["pubkey"] in f["authors"] or _delegated(e, f["authors"])):
        return False
    if f.get("since") is not None and not (e["created_at"] >= f["since"]):
        return False
    if f.get("until") is not None and not (e["created_at"] <= f["until"]):
        return False
    return True
