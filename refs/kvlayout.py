"""Reference LMDB key layout, written from the layout comment at the top of storage/kv.py
(NOT by calling the repo's convert()/to_key()), used to build symbolic stores and as the
coherence oracle of C10.

  ids      b'\\x00' id32                                  -> packed event row
  created  b'\\x01' ts4  b'\\x00' ts4 b'\\x00' id32
  kind     b'\\x02' kind4 b'\\x00' ts4 b'\\x00' id32
  author   b'\\x03' pk32 b'\\x00' ts4 b'\\x00' id32
  authkind b'\\x04' pk32 b'\\x00' kind4 b'\\x00' ts4 b'\\x00' id32
  tag      b'\\x09' name b'\\x00' value b'\\x00' ts4 b'\\x00' id32   (single-letter names, expiration, delegation)
  tombstone b'\\xee'
"""
TOMBSTONE = b"\xee"


def be4(x):
    return x.to_bytes(4, "big")


def k_id(idb):
    return b"\x00" + idb


def k_created(ts, idb):
    return b"\x01" + be4(ts) + b"\x00" + be4(ts) + b"\x00" + idb


def k_kind(kind, ts, idb):
    return b"\x02" + be4(kind) + b"\x00" + be4(ts) + b"\x00" + idb


def k_author(pk, ts, idb):
    return b"\x03" + pk + b"\x00" + be4(ts) + b"\x00" + idb


def k_authorkind(pk, kind, ts, idb):
    return b"\x04" + pk + b"\x00" + be4(kind) + b"\x00" + be4(ts) + b"\x00" + idb


def k_tag(name, value, ts, idb):
    return b"\x09" + name.encode() + b"\x00" + value.encode() + b"\x00" + be4(ts) + b"\x00" + idb


def indexable(tag):
    """a tag is indexed when it has a value and a single-character name (or expiration/delegation)"""
    return len(tag) >= 2 and (len(tag[0]) == 1 or tag[0] in ("expiration", "delegation"))


def index_keys(idb, pk, kind, ts, tags):
    """all secondary-index keys of one event (a list: duplicates collapse in the store)"""
    keys = [k_created(ts, idb), k_kind(kind, ts, idb), k_author(pk, ts, idb), k_authorkind(pk, kind, ts, idb)]
    for t in tags:
        if indexable(t):
            keys.append(k_tag(t[0], str(t[1]), ts, idb))
    return keys
