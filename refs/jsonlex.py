"""Symbolic-friendly reference of json.encoder.encode_basestring (ensure_ascii=False), used in
place of the C implementation while an obligation runs (the C function would realise a symbolic
str).  `selftest()` checks it against the real function on every BMP code point class."""
import json

_SHORT = {'"': '\\"', "\\": "\\\\", "\n": "\\n", "\r": "\\r", "\t": "\\t", "\b": "\\b", "\f": "\\f"}


def ebs(s):
    out = '"'
    for c in s:
        if c == '"':
            out += '\\"'
        elif c == "\\":
            out += "\\\\"
        elif c < " ":
            if c == "\n":
                out += "\\n"
            elif c == "\r":
                out += "\\r"
            elif c == "\t":
                out += "\\t"
            elif c == "\b":
                out += "\\b"
            elif c == "\f":
                out += "\\f"
            else:
                out += "\\u00" + "0123456789abcdef"[ord(c) // 16] + "0123456789abcdef"[ord(c) % 16]
        else:
            out += c
    return out + '"'


def selftest():
    real = json.encoder.encode_basestring
    for cp in list(range(0, 0x3000)) + [0xD7FF, 0xE000, 0xFFFD, 0xFFFF, 0x10000, 0x1F600, 0x10FFFF]:
        c = chr(cp)
        for s in (c, "a" + c, c + '"'):
            if ebs(s) != real(s):
                raise AssertionError("reference encode_basestring differs from the real one on %r" % s)
            if json.loads(real(s)) != s:
                raise AssertionError("encode_basestring does not round-trip %r" % s)
