"""Run the obligations of one property under CrossHair, replay counterexamples, apply the
known-findings policy and write the evidence file.  See DESIGN.md §2 and §4."""
import ast
import concurrent.futures as cf
import importlib
import inspect
import json
import os
import re
import subprocess
import threading
import sys
import time

ROOT = os.path.dirname(os.path.dirname(os.path.abspath(__file__)))
GEN = os.path.join(ROOT, ".gen")
PY = os.path.join(ROOT, ".venv", "bin", "python")
PLUGIN = os.path.join(ROOT, "envmodel", "chplugin.py")
KNOWN = os.path.join(ROOT, "known_findings.jsonl")
MAX_PAR = int(os.environ.get("VK_JOBS", "14"))

EXIT_OK, EXIT_VIOLATION, EXIT_HARNESS = 0, 1, 3


def env_for(tier, param):
    e = dict(os.environ)
    # VK_REPO (seed evaluation only): analyse another checkout of the repository instead of /repo
    alt = [os.environ["VK_REPO"]] if os.environ.get("VK_REPO") else []
    e["PYTHONPATH"] = os.pathsep.join(alt + [ROOT, os.path.join(ROOT, "stubs")])
    e["PYTHONHASHSEED"] = "0"
    e["VK_TIER"] = tier
    e["VK_PARAM"] = str(param)
    e["NOSTR_RELAY_VERIF"] = "1"
    e.pop("PYTHONSTARTUP", None)
    return e


# ----------------------------------------------------------------------------- discovery
def load_obligations(prop, tier):
    """Return [(module_name, file, func_name, meta, params)] for every harness of `prop`."""
    sys.path[:0] = ([os.environ["VK_REPO"]] if os.environ.get("VK_REPO") else []) + [ROOT, os.path.join(ROOT, "stubs")]
    os.environ["VK_TIER"] = tier
    out = []
    hdir = os.path.join(ROOT, "harness")
    names = sorted(f[:-3] for f in os.listdir(hdir) if f.startswith(prop) and f.endswith(".py"))
    from vk import ob

    for n in names:
        mod = importlib.import_module("harness." + n)
        for f in ob.REGISTRY.get(mod.__name__, []):
            meta = f._vk
            if meta["tier"] == "thorough" and tier != "thorough":
                continue
            params = meta["params"]
            if isinstance(params, dict):
                params = params.get("thorough" if os.environ.get("VK_ALLPARAMS") else tier, params.get("quick"))
            params = list(params) if params is not None else [None]
            out.append((mod.__name__, mod.__file__, f.__name__, meta, params, inspect.getdoc(f) or ""))
    return out


# ----------------------------------------------------------------------------- variants
def make_variant(src_file, func, tag, post=None, extra_pre=()):
    """Copy a harness file to .gen/, rewriting the contract of `func`:
    post -> replace every `post:` line;  extra_pre -> inserted before the first post: line."""
    os.makedirs(GEN, exist_ok=True)
    src = open(src_file).read()
    tree = ast.parse(src)
    target = None
    for node in ast.walk(tree):
        if isinstance(node, ast.FunctionDef) and node.name == func:
            target = node
            break
    if target is None:
        raise RuntimeError("no function %s in %s" % (func, src_file))
    doc = target.body[0]
    lines = src.split("\n")
    lo, hi = doc.lineno - 1, doc.end_lineno  # docstring line span
    new = []
    inserted = False
    for ln in lines[lo:hi]:
        st = ln.strip()
        if st.startswith("post:"):
            indent = ln[: len(ln) - len(ln.lstrip())]
            if not inserted:
                for p in extra_pre:
                    new.append("%spre: %s" % (indent, p))
                inserted = True
            if post is not None:
                new.append("%spost: %s" % (indent, post))
                continue
        new.append(ln)
    lines[lo:hi] = new
    base = os.path.basename(src_file)[:-3]
    path = os.path.join(GEN, "%s__%s__%s.py" % (base, func, tag))
    tmp = "%s.%d.%d.tmp" % (path, os.getpid(), threading.get_ident())
    with open(tmp, "w") as fh:
        fh.write("\n".join(lines))
    os.replace(tmp, path)
    return path


def func_line(path, func):
    tree = ast.parse(open(path).read())
    for node in ast.walk(tree):
        if isinstance(node, ast.FunctionDef) and node.name == func:
            return node.body[0].lineno if node.body else node.lineno
    raise RuntimeError("no function %s in %s" % (func, path))


# ----------------------------------------------------------------------------- crosshair
RES_RE = re.compile(r"^(?P<file>[^:\n]+):(?P<line>\d+): (?P<sev>error|info|warning): (?P<msg>.*)$")


def run_crosshair(path, func, tier, param, timeout, path_timeout=None):
    line = func_line(path, func)
    cmd = [PY, "-m", "crosshair", "check", "--extra_plugin", PLUGIN, "--analysis_kind=PEP316", "--report_all",
           "--per_condition_timeout", str(timeout)]
    if path_timeout:
        cmd += ["--per_path_timeout", str(path_timeout)]
    cmd.append("%s:%d" % (path, line))
    t0 = time.time()
    try:
        p = subprocess.run(cmd, cwd=ROOT, env=env_for(tier, param if param is not None else 0),
                           capture_output=True, text=True, timeout=timeout * 1.5 + 90)
        out, err, rc = p.stdout, p.stderr, p.returncode
    except subprocess.TimeoutExpired as e:
        out = (e.stdout or b"").decode() if isinstance(e.stdout, bytes) else (e.stdout or "")
        err, rc = "outer timeout", -9
    wall = time.time() - t0
    verdict, msg = "inconclusive", "no result line (rc=%s): %s" % (rc, (err or out)[-400:])
    # crosshair prints one line per condition; multi-line messages continue on following lines
    text = out
    found = None
    for m in re.finditer(r"^[^\n]*?:\d+: (error|info|warning): ", text, re.M):
        found = m
        sev = m.group(1)
        body = text[m.end():]
        nxt = re.search(r"^[^\n]*?:\d+: (error|info|warning): ", body, re.M)
        body = body[: nxt.start()] if nxt else body
        body = body.strip()
        if sev == "error":
            verdict, msg = "counterexample", body
            break
        if "Confirmed over all paths" in body:
            verdict, msg = "confirmed", body
        elif "Unable to meet precondition" in body:
            verdict, msg = "inconclusive", "unable-to-meet-precondition"
        elif "Not confirmed" in body:
            verdict, msg = "inconclusive", "not-confirmed (budget %ss exhausted)" % timeout
        elif "Unknown" in body or "Not" in body:
            verdict, msg = "inconclusive", body[:200]
    return dict(verdict=verdict, message=msg, wall_s=round(wall, 2), rc=rc,
                stderr_tail=(err or "")[-300:] if verdict == "inconclusive" and not found else "")


CALL_RE = re.compile(r"when calling (?P<f>\w+)\((?P<args>.*)\)\s*(\(which (returns|raises)|$)", re.S)


PATCH_MARK = ") with crosshair.patch_to_return("


def parse_call(msg, func):
    """-> source text of the argument list; a nondeterministic-function schedule CrossHair reports
    ("with crosshair.patch_to_return({...})") is carried along after a NUL separator"""
    i = msg.find("when calling %s(" % func)
    if i < 0:
        return None
    rest = msg[i + len("when calling %s(" % func):]
    k = rest.find(PATCH_MARK)
    if k >= 0:
        tail = rest[k + len(PATCH_MARK):]
        e = tail.find("})")
        patch = tail[: e + 1] if e >= 0 else None
        return rest[:k] + ("\x1ePATCH\x1e" + patch if patch else "")
    j = rest.rfind(") (which returns")
    if j < 0:
        j = rest.rfind(")")
    if j < 0:
        return None
    return rest[:j]


def replay_call(modname, func, param, tier, args_src, timeout=300):
    """Execute the obligation concretely (no CrossHair) on the counterexample's arguments."""
    cmd = [PY, "-m", "vk.replay", modname, func, args_src]
    try:
        p = subprocess.run(cmd, cwd=ROOT, env=env_for(tier, param if param is not None else 0),
                           capture_output=True, text=True, timeout=timeout)
    except subprocess.TimeoutExpired:
        return dict(status="error", detail="replay timeout")
    for ln in reversed(p.stdout.strip().split("\n")):
        if ln.startswith("{"):
            try:
                return json.loads(ln)
            except Exception:
                pass
    return dict(status="error", detail=(p.stderr or p.stdout)[-600:])


# ----------------------------------------------------------------------------- known findings
def load_known(prop):
    findings, fixed = [], []
    if os.path.exists(KNOWN):
        for ln in open(KNOWN):
            ln = ln.strip()
            if not ln or ln.startswith("#"):
                continue
            if ln.startswith("fixed:"):
                fixed.append(ln)
                continue
            rec = json.loads(ln)
            if rec.get("property") == prop:
                findings.append(rec)
    return findings, fixed


def trigger_matches(rec, modname, func, param, tier, args_src):
    if rec.get("obligation") not in (func, "*"):
        return False
    if rec.get("param") is not None and rec.get("param") != param:
        return False
    r = replay_call(modname, func, param, tier, args_src + "\x1eTRIGGER\x1e" + rec["trigger"])
    return r.get("status") == "trigger" and r.get("value") is True


# ----------------------------------------------------------------------------- one obligation
def run_obligation(prop, modname, path, func, meta, param, tier, known, doc):
    tq, tt = meta["timeout"]
    timeout = tt if tier == "thorough" else tq
    label = (func if param is None else "%s[%d]" % (func, param)) + meta.get("label_suffix", "")
    rec = dict(obligation=label, functions=list(meta["funcs"]), bounds=meta["bounds"],
               pre=[l.strip() for l in doc.split("\n") if l.strip().startswith("pre:")],
               post=[l.strip() for l in doc.split("\n") if l.strip().startswith("post:")],
               budget_s=timeout, known_findings=[], violations=[], notes=[])
    t0 = time.time()
    # reachability twin (vacuity guard)
    twin_path = make_variant(path, func, "reach%s%s" % ("" if param is None else param, tier[0]), post='_ != "ok"')
    twin = run_crosshair(twin_path, func, tier, param, min(timeout, 120), meta["path_timeout"])
    rec["twin"] = dict(verdict=twin["verdict"], wall_s=twin["wall_s"])
    if twin["verdict"] == "counterexample":
        a = parse_call(twin["message"], func)
        rec["twin"]["witness"] = "%s(%s)" % (func, a) if a is not None else twin["message"][:300]
        reachable = a is not None and "which returns 'ok'" in twin["message"].replace('"', "'")
        if not reachable:
            # an exception or a failing value also shows the code is reached; keep message
            rec["twin"]["note"] = twin["message"][:300]
            reachable = True
    else:
        reachable = False
        rec["twin"]["note"] = twin["message"][:300]
    extra_pre = []
    cur_path = path
    verdict = None
    for rnd in range(6):
        res = run_crosshair(cur_path, func, tier, param, timeout, meta["path_timeout"])
        rec.setdefault("runs", []).append(dict(verdict=res["verdict"], wall_s=res["wall_s"],
                                              message=res["message"][:500], excluded=list(extra_pre)))
        if res["verdict"] != "counterexample":
            verdict = res["verdict"]
            if res["verdict"] == "inconclusive":
                rec["notes"].append(res["message"][:300] + (" | " + res["stderr_tail"] if res.get("stderr_tail") else ""))
            break
        args_src = parse_call(res["message"], func)
        if args_src is None:
            verdict = "harness-error"
            rec["notes"].append("cannot parse counterexample: " + res["message"][:400])
            break
        rp = replay_call(modname, func, param, tier, args_src)
        _res = str(rp.get("result", "")).lstrip("'\"")
        if rp.get("status") == "violated" and (_res.startswith("harness-error") or _res.startswith("raises Unsupported")
                                               or "Unsupported(" in _res):
            verdict = "harness-error"
            rec["notes"].append("%s(%s): %s" % (func, args_src, rp.get("result")))
            break
        if rp.get("status") != "violated":
            verdict = "harness-error"
            rec["notes"].append("counterexample %s(%s) did not reproduce concretely: %s" % (func, args_src, rp))
            break
        hit = None
        for k in known:
            if trigger_matches(k, modname, func, param, tier, args_src):
                hit = k
                break
        if hit is not None:
            rec["known_findings"].append(dict(what=hit["what"], trigger=hit["trigger"],
                                              example="%s(%s)" % (func, args_src), result=rp.get("result")))
            extra_pre.append("not (%s)" % hit["trigger"])
            cur_path = make_variant(path, func, "kf%d_%s%s" % (rnd, "" if param is None else param, tier[0]), extra_pre=extra_pre)
            continue
        rec["violations"].append(dict(call="%s(%s)" % (func, args_src), result=rp.get("result"),
                                      param=param, module=modname, function=func, args=args_src,
                                      tier=tier, message=res["message"][:600]))
        verdict = "violated"
        break
    else:
        verdict = "inconclusive"
        rec["notes"].append("more than 6 known-finding exclusion rounds")
    if verdict == "confirmed" and not reachable:
        verdict = "inconclusive"
        rec["notes"].append("vacuous: reachability twin was not refuted (%s)" % twin["verdict"])
    rec["verdict"] = verdict
    rec["wall_s"] = round(time.time() - t0, 2)
    return rec


# ----------------------------------------------------------------------------- property
def run_property(prop, tier, only=None, budget=None):
    t0 = time.time()
    seed = int(os.environ.get("VERIF_SEED", "0") or 0)
    os.makedirs(os.path.join(ROOT, "evidence"), exist_ok=True)
    os.makedirs(os.path.join(ROOT, "replays"), exist_ok=True)
    known, fixed = load_known(prop)
    try:
        obs = load_obligations(prop, tier)
    except Exception as e:
        import traceback
        traceback.print_exc()
        print("HARNESS-ERROR property=%s cannot import harness: %r" % (prop, e))
        return EXIT_HARNESS
    if not obs:
        print("HARNESS-ERROR property=%s has no obligations" % prop)
        return EXIT_HARNESS
    jobs = []
    families = [(obs, tier, "")]
    if tier == "thorough":
        # the thorough tier = everything the quick tier decides (same bounds, so it is never weaker than quick)
        # + the widened obligations, which may or may not exhaust their larger spaces within the budget
        families = [(load_obligations(prop, "quick"), "quick", "@quick-bounds"), (obs, "thorough", "")]
    for fam_obs, fam_tier, suffix in families:
        for modname, path, func, meta, params, doc in fam_obs:
            for prm in params:
                label = (func if prm is None else "%s[%d]" % (func, prm)) + suffix
                if only and not re.search(only, label):
                    continue
                m2 = dict(meta, label_suffix=suffix)
                if budget:
                    m2["timeout"] = (budget, budget)
                jobs.append((prop, modname, path, func, m2, prm, fam_tier, known, doc))
    results = []
    with cf.ThreadPoolExecutor(max_workers=max(1, MAX_PAR // 1)) as ex:
        futs = [ex.submit(run_obligation, *j) for j in jobs]
        for f in futs:
            results.append(f.result())
    status = EXIT_OK
    nviol = 0
    for r in results:
        for kf in r["known_findings"]:
            print("KNOWN-FINDING: property=%s %s [obligation %s; e.g. %s]" % (prop, kf["what"], r["obligation"], kf["example"]))
        for v in r["violations"]:
            nviol += 1
            rp = os.path.join(ROOT, "replays", "%s-%s.json" % (prop, re.sub(r"\W+", "_", r["obligation"])))
            with open(rp, "w") as fh:
                json.dump(dict(property=prop, **v), fh, indent=1)
            print("VIOLATION property=%s replay=%s" % (prop, rp))
            print("  obligation %s: %s -> %s" % (r["obligation"], v["call"], v["result"]))
            status = EXIT_VIOLATION
    harness_err = [r for r in results if r["verdict"] == "harness-error"]
    inconcl = [r for r in results if r["verdict"] == "inconclusive"]
    confirmed = [r for r in results if r["verdict"] == "confirmed"]
    for r in inconcl:
        print("INCONCLUSIVE property=%s obligation=%s %s" % (prop, r["obligation"], "; ".join(r["notes"])[:300]))
    for r in harness_err:
        print("HARNESS-ERROR property=%s obligation=%s %s" % (prop, r["obligation"], "; ".join(r["notes"])[:600]))
    if harness_err and status == EXIT_OK:
        status = EXIT_HARNESS
    wall = time.time() - t0
    samples = []
    for r in results:
        if r.get("twin", {}).get("witness"):
            samples.append(dict(obligation=r["obligation"], reachability_witness=r["twin"]["witness"]))
        for v in r["violations"]:
            samples.append(dict(obligation=r["obligation"], counterexample=v["call"], result=v["result"]))
    functions = sorted({f for r in results for f in r["functions"]})
    ev = dict(
        property_id=prop, tier=tier, seed=seed, level="other",
        coverage=dict(
            explanation=("Bounded symbolic execution (CrossHair 0.0.110 + z3) of the real functions imported from "
                         "/repo's working tree. Each obligation is a contract whose pre: lines are the bounds; "
                         "'confirmed' = CrossHair reported 'Confirmed over all paths' (every path inside the bounds "
                         "explored, negated post-condition unsat on each) AND the reachability twin was refuted. "
                         "Inconclusive obligations are listed and NOT counted as discharged."),
            obligations=len(results), discharged=len(confirmed),
            inconclusive=[r["obligation"] for r in inconcl],
            evaluations=len(results) + sum(len(r.get("runs", [])) for r in results),
            distinct_nontrivial=len([r for r in results if r.get("twin", {}).get("verdict") == "counterexample"]),
            rule="one evaluation = one CrossHair run (obligation or reachability twin); an obligation is non-trivial when its twin (post: result != 'ok') was refuted with a concrete witness",
            samples=samples[:40] or [dict(note="no witness produced")],
            checker_cmd="crosshair check --analysis_kind=PEP316 --report_all --per_condition_timeout <budget> --extra_plugin envmodel/chplugin.py <harness>:<line>",
            trusted_base=["CrossHair 0.0.110 symbolic execution of CPython byte-code", "z3 5.1.0",
                          "stubs/lmdb (contract model of py-lmdb)", "stubs/msgpack (identity round-trip)",
                          "envmodel/* environment models (asyncio, SQL subset, crypto oracle)", "refs/* reference semantics"],
            functions_encoded=functions,
            solver_wall_s=round(sum(r["wall_s"] for r in results), 1),
            obligations_detail=results,
            known_findings_reported=sum(len(r["known_findings"]) for r in results),
            fixed_entries=fixed,
        ),
        assumptions=sorted({a for r in results for a in ([r["bounds"]] if r["bounds"] else [])}),
        wall_s=round(wall, 2), violations=nviol,
    )
    evdir = os.environ.get("VK_EVIDENCE_DIR") or os.path.join(ROOT, "evidence")
    os.makedirs(evdir, exist_ok=True)
    with open(os.path.join(evdir, "%s.json" % prop), "w") as fh:
        json.dump(ev, fh, indent=1, default=str)
    print("SUMMARY property=%s tier=%s obligations=%d confirmed=%d inconclusive=%d violations=%d known=%d wall=%.0fs" % (
        prop, tier, len(results), len(confirmed), len(inconcl), nviol,
        sum(len(r["known_findings"]) for r in results), wall))
    return status
