import argparse
import json
import os
import sys

from vk import runner


def main():
    ap = argparse.ArgumentParser()
    ap.add_argument("prop", nargs="?")
    ap.add_argument("--tier", default=os.environ.get("VERIF_TIER") or "quick", choices=["quick", "thorough"])
    ap.add_argument("--replay")
    ap.add_argument("--only", help="regex on obligation labels (debugging; evidence then covers only those)")
    ap.add_argument("--budget", type=int, help="override per-condition budget in seconds (debugging)")
    a = ap.parse_args()
    if a.replay:
        rec = json.load(open(a.replay))
        r = runner.replay_call(rec["module"], rec["function"], rec.get("param"), rec.get("tier", "quick"), rec["args"])
        print(json.dumps(r, indent=1))
        if r.get("status") == "violated":
            print("VIOLATION property=%s replay=%s" % (rec["property"], a.replay))
            sys.exit(1)
        sys.exit(0)
    if not a.prop:
        ap.error("property id required")
    sys.exit(runner.run_property(a.prop, a.tier, only=a.only, budget=a.budget))


if __name__ == "__main__":
    main()
