"""Concrete re-execution of an obligation on a counterexample's arguments (no CrossHair).
usage: python -m vk.replay <module> <function> '<args source>[\\0TRIGGER\\0<expr>]'
Prints one JSON line: {"status": "violated"|"ok"|"error"|"trigger", ...}."""
import importlib
import inspect
import json
import logging
import sys
import traceback


def main():
    import os
    os.environ["VK_REPLAY"] = "1"   # harnesses may decide slow-path questions concretely during replay
    modname, func, args_src = sys.argv[1], sys.argv[2], sys.argv[3]
    trigger = None
    if "\x1eTRIGGER\x1e" in args_src:
        args_src, trigger = args_src.split("\x1eTRIGGER\x1e", 1)
        args_src = args_src.split("\x1ePATCH\x1e", 1)[0]
    patch = None
    if "\x1ePATCH\x1e" in args_src:
        args_src, patch = args_src.split("\x1ePATCH\x1e", 1)
    logging.disable(logging.CRITICAL)
    mod = importlib.import_module(modname)
    f = getattr(mod, func)
    ns = dict(vars(mod))
    ns.update(float=float, nan=float("nan"), inf=float("inf"))
    if trigger is not None:
        try:
            bound = eval("__sig.bind(%s)" % args_src, dict(ns, __sig=inspect.signature(f)))
            bound.apply_defaults()
            val = eval(trigger, dict(ns), dict(bound.arguments))
            print(json.dumps(dict(status="trigger", value=bool(val))))
        except Exception as e:
            print(json.dumps(dict(status="error", detail="trigger: %r" % (e,))))
        return
    try:
        if patch:
            import crosshair, time, random  # noqa: the names CrossHair uses in its report
            with crosshair.patch_to_return(eval(patch, dict(time=time, random=random))):
                result = eval("__f(%s)" % args_src, dict(ns, __f=f))
        else:
            result = eval("__f(%s)" % args_src, dict(ns, __f=f))
    except Exception as e:
        print(json.dumps(dict(status="violated", result="raises %s: %s" % (type(e).__name__, str(e)[:300]),
                              traceback=traceback.format_exc()[-1500:])))
        return
    if isinstance(result, str) and result.startswith("ok"):
        print(json.dumps(dict(status="ok", result=result)))
    else:
        print(json.dumps(dict(status="violated", result=repr(result)[:600])))


if __name__ == "__main__":
    main()
